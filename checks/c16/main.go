// C16 — outbound write queue: FIFO, bounded, loss only when signalled.
//
// Stateless model checking of the real pkg/ringbuffer + internal/asyncprocessor (compiled against the
// vsched shim through generated copies) under the controlled scheduler: every interleaving of small
// closed drivers up to a preemption bound, each history checked for linearizability to a bounded FIFO
// queue (porcupine) plus the lifecycle invariants; and every sequential operation sequence up to a
// length bound against a slice.
package main

import (
	"encoding/json"
	"errors"
	"flag"
	"fmt"
	"os"
	"os/exec"
	"sort"
	"strings"
	"sync"
	"time"

	"github.com/anishathalye/porcupine"

	"github.com/bluenviron/gortsplib/v5/pkg/ringbuffer"
	"github.com/bluenviron/gortsplib/v5/pkg/zverif/apx"
	"github.com/bluenviron/gortsplib/v5/pkg/zverif/vsched"

	"context"

	"verif/internal/evid"
)

// Scenario is one closed driver.
type Scenario struct {
	Name      string   `json:"name"`
	Cap       int      `json:"capacity"`
	Producers [][]int  `json:"producers"` // item ids pushed by each producer thread, in order
	Control   []string `json:"control"`   // operations of the control thread: start, close, yield
	ErrAt     int      `json:"error_at"`  // callback number (1-based, in execution order) that returns an error; 0 = none
	RingOnly  bool     `json:"ring_only"` // S7: ring buffer alone with an explicit consumer thread
	Pulls     int      `json:"pulls"`
}

var scenarios = []Scenario{
	{Name: "S1-cap1-start-close", Cap: 1, Producers: [][]int{{1, 2}, {3}}, Control: []string{"start", "close"}},
	{Name: "S2-cap2-start-close", Cap: 2, Producers: [][]int{{1, 2}, {3, 4}}, Control: []string{"start", "close"}},
	{Name: "S3-close-without-start", Cap: 2, Producers: [][]int{{1, 2}, {3}}, Control: []string{"close"}},
	{Name: "S4a-error-1", Cap: 2, Producers: [][]int{{1, 2}, {3}}, Control: []string{"start"}, ErrAt: 1},
	{Name: "S4b-error-2-close", Cap: 2, Producers: [][]int{{1, 2}, {3}}, Control: []string{"start", "yield", "close"}, ErrAt: 2},
	{Name: "S4c-error-3", Cap: 2, Producers: [][]int{{1, 2, 3}}, Control: []string{"start", "close"}, ErrAt: 3},
	{Name: "S5-cap4-no-close", Cap: 4, Producers: [][]int{{1}, {2}, {3}}, Control: []string{"start"}},
	{Name: "S5b-cap1-no-close", Cap: 1, Producers: [][]int{{1, 2}, {3}}, Control: []string{"start"}},
	{Name: "S6-cap1-pingpong", Cap: 1, Producers: [][]int{{1, 2, 3, 4}}, Control: []string{"start", "yield", "close"}},
	{Name: "S7-ring-alone", Cap: 2, Producers: [][]int{{1, 2, 3}}, Control: []string{"yield", "close"}, RingOnly: true, Pulls: 4},
	{Name: "S8-start-late", Cap: 2, Producers: [][]int{{1, 2, 3}}, Control: []string{"yield", "start", "close"}},
}

type event struct {
	T    int64  `json:"t"`
	Thr  int    `json:"thread"`
	Kind string `json:"kind"` // push-call push-ret cb-start cb-end close-call close-ret start-call start-ret onerror pull-call pull-ret
	X    int    `json:"x"`
	OK   bool   `json:"ok"`
}

type qin struct {
	kind string // push deq clear pull
	x    int
}
type qout struct {
	ok bool
	x  int
}
type qstate struct {
	q      string // comma separated
	closed bool
}

func model(capacity int, withClosed bool) porcupine.Model {
	return porcupine.Model{
		Init: func() interface{} { return qstate{} },
		Step: func(st, in, out interface{}) (bool, interface{}) {
			s := st.(qstate)
			i := in.(qin)
			o := out.(qout)
			var items []string
			if s.q != "" {
				items = strings.Split(s.q, ",")
			}
			switch i.kind {
			case "push":
				if len(items) < capacity {
					if !o.ok {
						return false, s
					}
					items = append(items, fmt.Sprint(i.x))
					return true, qstate{strings.Join(items, ","), s.closed}
				}
				return !o.ok, s
			case "deq":
				if len(items) > 0 && items[0] == fmt.Sprint(o.x) {
					return true, qstate{strings.Join(items[1:], ","), s.closed}
				}
				return false, s
			case "pull":
				if o.ok {
					if len(items) > 0 && items[0] == fmt.Sprint(o.x) {
						return true, qstate{strings.Join(items[1:], ","), s.closed}
					}
					return false, s
				}
				return s.closed && len(items) == 0, s
			case "clear":
				return true, qstate{"", true}
			}
			return false, s
		},
		Equal: func(a, b interface{}) bool { return a.(qstate) == b.(qstate) },
	}
}

type oracleFail struct{ Sig, Msg string }

// runBody is the closed driver; it returns the recorded events through rec.
func body(sc Scenario, rec *[]event) func() {
	return func() {
		var clock int64
		add := func(kind string, x int, ok bool) {
			clock++
			*rec = append(*rec, event{T: clock, Thr: vsched.ThreadID(), Kind: kind, X: x, OK: ok})
		}
		if sc.RingOnly {
			r, _ := ringbuffer.New(uint64(sc.Cap))
			for _, items := range sc.Producers {
				vsched.GoNamed("producer", func() {
					for _, x := range items {
						add("push-call", x, false)
						ok := r.Push(x)
						add("push-ret", x, ok)
					}
				})
			}
			vsched.GoNamed("consumer", func() {
				for i := 0; i < sc.Pulls; i++ {
					add("pull-call", 0, false)
					v, ok := r.Pull()
					x := 0
					if ok {
						x = v.(int)
					}
					add("pull-ret", x, ok)
					if !ok {
						return
					}
				}
			})
			for _, c := range sc.Control {
				switch c {
				case "yield":
					vsched.Yield("control")
				case "close":
					add("close-call", 0, false)
					r.Close()
					add("close-ret", 0, false)
				}
			}
			return
		}
		ncb := 0
		p := &apx.Processor{BufferSize: sc.Cap, OnError: func(_ context.Context, err error) {
			add("onerror", 0, false)
			vsched.Yield("onerror") // the report takes time: Close may be racing it
			add("onerror-end", 0, false)
		}}
		p.Initialize()
		for _, items := range sc.Producers {
			vsched.GoNamed("producer", func() {
				for _, x := range items {
					add("push-call", x, false)
					ok := p.Push(func() error {
						add("cb-start", x, false)
						ncb++
						n := ncb
						vsched.Yield("callback")
						add("cb-end", x, false)
						if sc.ErrAt != 0 && n == sc.ErrAt {
							return errors.New("boom")
						}
						return nil
					})
					add("push-ret", x, ok)
				}
			})
		}
		for _, c := range sc.Control {
			switch c {
			case "yield":
				vsched.Yield("control")
			case "start":
				add("start-call", 0, false)
				p.Start()
				add("start-ret", 0, false)
			case "close":
				add("close-call", 0, false)
				p.Close()
				add("close-ret", 0, false)
			}
		}
	}
}

// checkHistory evaluates the oracle on one finished execution.
func checkHistory(sc Scenario, ev []event, r *vsched.Result) *oracleFail {
	if r.Panic != nil {
		return &oracleFail{"panic", fmt.Sprintf("panic: %v\n%s", r.Panic, r.PanicStack)}
	}
	var ops []porcupine.Operation
	pushCall := map[int]int64{}
	accepted := map[int]bool{}
	executed := []int{}
	var closeRet, closeCall int64 = -1, -1
	var lastCbEnd int64 = -1
	var startCall int64 = -1
	cbOpen := false
	cbThread := -1
	onerr := 0
	var errAfter int64 = -1
	failedCb := false
	pullCall := map[int]int64{}
	hasClose := false
	for _, e := range ev {
		switch e.Kind {
		case "push-call":
			pushCall[e.X] = e.T
		case "push-ret":
			ops = append(ops, porcupine.Operation{ClientId: e.Thr, Input: qin{"push", e.X}, Call: pushCall[e.X], Output: qout{ok: e.OK}, Return: e.T})
			if e.OK {
				accepted[e.X] = true
			}
		case "start-call":
			startCall = e.T
		case "cb-start":
			if cbOpen {
				return &oracleFail{"callbacks-overlap", fmt.Sprintf("callback %d started while another was running", e.X)}
			}
			if cbThread >= 0 && cbThread != e.Thr {
				return &oracleFail{"several-consumers", "callbacks ran on different threads"}
			}
			cbThread = e.Thr
			cbOpen = true
			if closeRet >= 0 && e.T > closeRet {
				return &oracleFail{"runs-after-close", fmt.Sprintf("callback %d began after Close had returned", e.X)}
			}
			if errAfter >= 0 {
				return &oracleFail{"runs-after-error", fmt.Sprintf("callback %d began after a callback had failed", e.X)}
			}
			call := lastCbEnd
			if call < 0 {
				call = startCall
			}
			if call < 0 {
				return &oracleFail{"runs-before-start", fmt.Sprintf("callback %d ran although Start was never called", e.X)}
			}
			ops = append(ops, porcupine.Operation{ClientId: 90, Input: qin{"deq", 0}, Call: call, Output: qout{x: e.X}, Return: e.T})
			executed = append(executed, e.X)
		case "cb-end":
			cbOpen = false
			lastCbEnd = e.T
			if sc.ErrAt != 0 && len(executed) == sc.ErrAt {
				failedCb = true
				errAfter = e.T
			}
		case "onerror":
			onerr++
			if !failedCb {
				return &oracleFail{"spurious-onerror", "OnError without a failing callback"}
			}
			if closeRet >= 0 && e.T > closeRet {
				return &oracleFail{"error-report-after-close", "OnError began after Close had returned"}
			}
		case "onerror-end":
			if closeRet >= 0 && e.T > closeRet {
				return &oracleFail{"error-report-after-close", "OnError was still running when Close returned"}
			}
		case "close-call":
			closeCall = e.T
			hasClose = true
		case "close-ret":
			closeRet = e.T
			ops = append(ops, porcupine.Operation{ClientId: 91, Input: qin{"clear", 0}, Call: closeCall, Output: qout{}, Return: e.T})
		case "pull-call":
			pullCall[e.Thr] = e.T
		case "pull-ret":
			ops = append(ops, porcupine.Operation{ClientId: e.Thr, Input: qin{"pull", 0}, Call: pullCall[e.Thr], Output: qout{ok: e.OK, x: e.X}, Return: e.T})
			delete(pullCall, e.Thr)
		}
	}
	if failedCb && onerr != 1 {
		return &oracleFail{"onerror-count", fmt.Sprintf("a callback failed but OnError was called %d times", onerr)}
	}
	seen := map[int]bool{}
	for _, x := range executed {
		if seen[x] {
			return &oracleFail{"executed-twice", fmt.Sprintf("item %d executed twice", x)}
		}
		seen[x] = true
		if !accepted[x] {
			return &oracleFail{"executed-but-refused", fmt.Sprintf("item %d executed although Push had returned false", x)}
		}
	}
	if !porcupine.CheckOperations(model(sc.Cap, sc.RingOnly), ops) {
		return &oracleFail{"not-linearizable", "history is not linearizable to a bounded FIFO queue"}
	}
	// liveness at quiescence: the control thread must have finished (Close returned)
	blocked := r.SortedBlocked()
	for _, b := range blocked {
		if strings.HasPrefix(b, "main:") {
			return &oracleFail{"close-blocked", "control thread blocked forever: " + b}
		}
		if strings.HasPrefix(b, "producer") {
			return &oracleFail{"producer-blocked", "producer blocked forever: " + b}
		}
	}
	started := startCall >= 0
	if !sc.RingOnly && started && !hasClose && !failedCb {
		// nothing stopped the queue: everything accepted must have run (lost wake-up detector)
		for x := range accepted {
			if !seen[x] {
				return &oracleFail{"lost-wakeup", fmt.Sprintf("item %d was accepted, nothing stopped the queue, yet it never ran (consumer: %v)", x, blocked)}
			}
		}
	}
	if hasClose && !sc.RingOnly {
		for _, b := range blocked {
			return &oracleFail{"consumer-outlives-close", "Close returned but a thread is still blocked: " + b}
		}
	}
	if sc.RingOnly && len(pullCall) > 0 && hasClose {
		return &oracleFail{"pull-blocked-after-close", "a Pull is still blocked although the ring was closed"}
	}
	return nil
}

type workerOut struct {
	Scenario   string           `json:"scenario"`
	Bound      int              `json:"bound"`
	Executions int64            `json:"executions"`
	Points     int64            `json:"points"`
	Histories  int              `json:"distinct_histories"`
	Finals     int              `json:"distinct_outcomes"`
	Capped     bool             `json:"capped"`
	Diverged   string           `json:"diverged"`
	MaxPre     int              `json:"max_preemptions"`
	Fail       *oracleFail      `json:"fail"`
	Choices    []int            `json:"choices"`
	Events     []event          `json:"events"`
	Sample     []event          `json:"sample"`
	Deadlocks  int64            `json:"quiescent_with_blocked_threads"`
	HistHashes map[string]int64 `json:"-"`
}

func histKey(ev []event) string {
	var sb strings.Builder
	for _, e := range ev {
		fmt.Fprintf(&sb, "%d%s%d%v|", e.Thr, e.Kind, e.X, e.OK)
	}
	return sb.String()
}

func explore(sc Scenario, bound int, maxExec int64, replay []int) workerOut {
	out := workerOut{Scenario: sc.Name, Bound: bound}
	hist := map[string]bool{}
	finals := map[string]bool{}
	var ev []event
	b := body(sc, &ev)
	wrapped := func() { ev = ev[:0]; b() }
	if replay != nil {
		r := vsched.Run(replay, 5000, wrapped)
		if r.Diverged != "" {
			out.Diverged = r.Diverged
			return out
		}
		out.Executions = 1
		out.Fail = checkHistory(sc, ev, r)
		out.Events = append([]event{}, ev...)
		out.Choices = replay
		return out
	}
	ex := &vsched.Explorer{Bound: bound, MaxSteps: 5000, MaxExec: maxExec}
	ex.Check = func(choices []int, r *vsched.Result) bool {
		out.Points += int64(len(r.Points))
		if r.Deadlock {
			out.Deadlocks++
		}
		k := histKey(ev)
		if !hist[k] {
			hist[k] = true
			if f := checkHistory(sc, ev, r); f != nil {
				out.Fail = f
				out.Choices = append([]int{}, choices...)
				out.Events = append([]event{}, ev...)
				return false
			}
			if out.Sample == nil && len(choices) > 3 {
				out.Sample = append([]event{}, ev...)
			}
		}
		var ex []string
		for _, e := range ev {
			if e.Kind == "cb-start" || e.Kind == "push-ret" || e.Kind == "pull-ret" {
				ex = append(ex, fmt.Sprintf("%s%d%v", e.Kind, e.X, e.OK))
			}
		}
		sort.Strings(ex)
		finals[strings.Join(ex, ",")] = true
		return true
	}
	ex.Explore(wrapped)
	out.Executions = ex.Executions
	out.Capped = ex.Capped
	out.Diverged = ex.Diverged
	out.Histories = len(hist)
	out.Finals = len(finals)
	return out
}

// sequential part: every operation sequence up to length n against a slice model.
func sequential(run *evid.Run, maxLen int) {
	type st struct {
		q      []int
		closed bool
	}
	for _, capacity := range []int{1, 2, 4, 8} {
		var rec func(ops []string)
		rec = func(ops []string) {
			if len(ops) > 0 {
				// replay on a fresh real ring
				r, err := ringbuffer.New(uint64(capacity))
				if err != nil {
					run.Violation("sequential/new", err.Error())
					return
				}
				var m st
				next := 1
				for i, op := range ops {
					switch op {
					case "push":
						ok := r.Push(next)
						want := len(m.q) < capacity
						if ok != want {
							run.Violation("sequential/push", map[string]any{"capacity": capacity, "ops": ops, "step": i, "got": ok, "want": want})
							return
						}
						if ok {
							m.q = append(m.q, next)
						}
						next++
					case "pull":
						if len(m.q) == 0 && !m.closed {
							continue // would block: not a sequential operation
						}
						v, ok := r.Pull()
						if len(m.q) > 0 {
							if !ok || v.(int) != m.q[0] {
								run.Violation("sequential/pull", map[string]any{"capacity": capacity, "ops": ops, "step": i, "got": v, "want": m.q[0]})
								return
							}
							m.q = m.q[1:]
						} else if ok {
							run.Violation("sequential/pull-after-close", map[string]any{"capacity": capacity, "ops": ops, "step": i})
							return
						}
					case "close":
						r.Close()
						m.q = nil
						m.closed = true
					case "reset":
						r.Reset()
						m.q = nil
						m.closed = false
					}
				}
				run.Eval(1)
				run.Transition(int64(len(ops)))
				run.StateHash(evid.Hash(fmt.Sprint("seq", capacity, m.q, m.closed)))
				if len(ops) > 2 {
					run.NontrivialHash(evid.Hash(fmt.Sprint(capacity, ops)))
				}
			}
			if len(ops) == maxLen {
				return
			}
			for _, o := range []string{"push", "pull", "close", "reset"} {
				rec(append(ops[:len(ops):len(ops)], o))
			}
		}
		rec(nil)
	}
	// a few fills of a 256-slot ring: wrap of both indices
	r, _ := ringbuffer.New(256)
	n := 0
	for round := 0; round < 3; round++ {
		for i := 0; i < 256; i++ {
			if !r.Push(n + i) {
				run.Violation("sequential/fill256", fmt.Sprint("push refused at ", i))
			}
		}
		if r.Push(-1) {
			run.Violation("sequential/fill256", "257th push accepted")
		}
		for i := 0; i < 256; i++ {
			v, ok := r.Pull()
			if !ok || v.(int) != n+i {
				run.Violation("sequential/fill256", fmt.Sprint("pull ", i, " got ", v))
			}
		}
		n += 256
		run.Eval(1)
	}
}

func main() {
	worker := flag.String("worker", "", "internal: scenario name")
	bound := flag.Int("bound", 0, "internal: preemption bound")
	maxExec := flag.Int64("maxexec", 0, "internal")
	replayChoices := flag.String("choices", "", "internal: JSON choice list")

	run := evid.New("C16", "model_checking")
	if *worker != "" {
		for _, sc := range scenarios {
			if sc.Name == *worker {
				var rp []int
				if *replayChoices != "" {
					json.Unmarshal([]byte(*replayChoices), &rp)
					if rp == nil {
						rp = []int{}
					}
				}
				out := explore(sc, *bound, *maxExec, rp)
				json.NewEncoder(os.Stdout).Encode(out)
				os.Exit(0)
			}
		}
		os.Exit(2)
	}
	run.Rule("case = one complete interleaving of a closed driver (2-4 threads: 1-2 producers x 1-4 pushes, control thread Start/Close, the consumer; capacities 1/2/4; callback error placements) on the real RingBuffer+Processor under the controlled scheduler, explored exhaustively for preemption bounds 0..3 (quick) / 0..4 and unbounded for the drivers whose space closes (thorough); plus every sequential operation sequence of length <=7 (quick) / <=9 (thorough) over {Push, Pull-if-ready, Close, Reset} for capacities 1,2,4,8. states = distinct call/return histories (+ sequential model states); transitions = scheduling points executed; every trace runs on the implementation. non-trivial = distinct history")
	run.Rule("binding part (whole system, in-memory network, real Client / Server): configured capacity N in {1,2,8,64,256} (thorough: every power of two 1..256) x {recording Client over TCP with the server application stalled in a packet callback, Server session playing over TCP to a reader that stopped reading}; packets pushed one at a time with a quiescence barrier after each until the first refusal; oracle: accepted(N) - N is the same for every N, 0 <= accepted(N) - N <= slack (what the stalled network absorbs); each case run 3 times and required identical")
	run.Assume("scheduling points at Lock, Cond.Wait, Cond.Signal/Broadcast, channel recv/close and goroutine start; Unlock is not a point (a thread that needs the lock cannot run before it anyway)")
	run.Assume("sequentially consistent memory (Go mutexes make that adequate for this code); unsynchronised accesses are the business of a separate -race pass, not of this scheduler")
	run.Assume("reading of the statement: items accepted but discarded by a Close that is concurrent with or later than their acceptance are not 'lost without signal' - Close is the signal")

	exe, _ := os.Executable()
	if run.Replay != "" {
		var d struct {
			Scenario string `json:"scenario"`
			Choices  []int  `json:"choices"`
		}
		if err := evid.LoadReplay(run.Replay, &d); err != nil {
			run.Fatal("replay: %v", err)
		}
		if d.Scenario == "" {
			// a violation of the binding part: its cases are few and quick, re-run them all
			binding(run)
			run.Finish()
		}
		cj, _ := json.Marshal(d.Choices)
		b, err := exec.Command(exe, "--worker", d.Scenario, "--choices", string(cj)).Output()
		if err != nil {
			run.Fatal("worker: %v", err)
		}
		var out workerOut
		json.Unmarshal(b, &out)
		run.Eval(1)
		if out.Fail != nil {
			fmt.Println("replay reproduces:", out.Fail.Sig, out.Fail.Msg)
			run.Violation(out.Scenario+"/"+out.Fail.Sig, map[string]any{"scenario": out.Scenario, "choices": out.Choices, "events": out.Events, "msg": out.Fail.Msg})
		} else {
			fmt.Println("replay: no violation", out.Diverged)
		}
		run.Finish()
	}

	seqLen := 7
	bounds := []int{0, 1, 2, 3}
	budget := int64(400000)
	if run.Thorough() {
		seqLen = 9
		bounds = []int{0, 1, 2, 3, 4, -1}
		budget = 3000000
	}
	// unbounded exploration (no state pruning) only closes for the smallest drivers; it is attempted
	// for those, everything else is explored up to the stated preemption bound
	closes := map[string]bool{"S3-close-without-start": true, "S4a-error-1": true}
	sequential(run, seqLen)

	type job struct {
		sc    Scenario
		bound int
	}
	var jobs []job
	for _, sc := range scenarios {
		for _, b := range bounds {
			if b < 0 && !closes[sc.Name] {
				continue
			}
			jobs = append(jobs, job{sc, b})
		}
	}
	var mu sync.Mutex
	completed := map[string]int{}
	results := []workerOut{}
	evid.Parallel(len(jobs), 16, func(i int) {
		j := jobs[i]
		cmd := exec.Command(exe, "--worker", j.sc.Name, "--bound", fmt.Sprint(j.bound), "--maxexec", fmt.Sprint(budget))
		cmd.Stderr = os.Stderr
		t0 := time.Now()
		b, err := cmd.Output()
		var out workerOut
		if err != nil || json.Unmarshal(b, &out) != nil {
			run.Fatal("worker %s bound %d failed: %v %s", j.sc.Name, j.bound, err, string(b))
		}
		_ = t0
		mu.Lock()
		defer mu.Unlock()
		results = append(results, out)
		run.Eval(out.Executions)
		run.Trace(out.Executions)
		run.Transition(out.Points)
		run.AddInt("quiescent_with_blocked_threads", out.Deadlocks)
		if out.Diverged != "" {
			run.Fatal("nondeterminism in %s bound %d: %s", j.sc.Name, j.bound, out.Diverged)
		}
		if out.Capped {
			run.Cap(fmt.Sprintf("%s bound %d stopped after %d executions", j.sc.Name, j.bound, out.Executions))
		} else if out.Fail == nil {
			if j.bound < 0 {
				completed[j.sc.Name] = 99
			} else if j.bound > completed[j.sc.Name] && completed[j.sc.Name] != 99 {
				completed[j.sc.Name] = j.bound
			}
		}
		if out.Fail != nil {
			// confirm by replaying the recorded schedule twice
			cj, _ := json.Marshal(out.Choices)
			same := 0
			for k := 0; k < 3; k++ {
				rb, _ := exec.Command(exe, "--worker", j.sc.Name, "--choices", string(cj)).Output()
				var ro workerOut
				json.Unmarshal(rb, &ro)
				if ro.Fail != nil && ro.Fail.Sig == out.Fail.Sig {
					same++
				}
			}
			if same != 3 {
				run.Flaky(fmt.Sprintf("%s/%s reproduced %d/3", j.sc.Name, out.Fail.Sig, same))
				return
			}
			run.Violation(j.sc.Name+"/"+out.Fail.Sig, map[string]any{"scenario": j.sc.Name, "bound": j.bound, "choices": out.Choices, "events": out.Events, "msg": out.Fail.Msg})
		}
	})
	perScenario := map[string]any{}
	for _, o := range results {
		key := fmt.Sprintf("%s/bound=%d", o.Scenario, o.Bound)
		perScenario[key] = map[string]any{"executions": o.Executions, "distinct_histories": o.Histories, "distinct_outcomes": o.Finals, "capped": o.Capped}
		// histories of a smaller bound are a subset of those of a larger one: count per scenario, not per job
		for h := 0; h < o.Histories; h++ {
			run.StateHash(evid.Hash(fmt.Sprint(o.Scenario, h)))
			run.NontrivialHash(evid.Hash(fmt.Sprint(o.Scenario, h)))
		}
		for f := 0; f < o.Finals; f++ {
			run.OutcomeHash(evid.Hash(fmt.Sprint(o.Scenario, f)))
		}
		if o.Sample != nil && o.Bound == 2 {
			run.Sample(map[string]any{"scenario": o.Scenario, "bound": o.Bound, "history": o.Sample})
		}
	}
	if os.Getenv("C16_AS_CORES") == "" {
		binding(run)
	}
	// auxiliary: the same kinds of drivers free-running under the race detector (thorough tier)
	if bin := os.Getenv("VERIF_RACE"); bin != "" {
		cmd := exec.Command(bin, "--iters", "300")
		cmd.Env = append(os.Environ(), "GORACE=halt_on_error=1 exitcode=66")
		outb, err := cmd.CombinedOutput()
		var ro struct {
			Runs int `json:"runs"`
		}
		if err != nil {
			if strings.Contains(string(outb), "DATA RACE") {
				tail := string(outb)
				if len(tail) > 6000 {
					tail = tail[:6000]
				}
				run.Violation("race-detector/data-race", map[string]any{"report": tail})
			} else {
				run.Set("race_pass_error", fmt.Sprint(err, " ", string(outb[:min(len(outb), 500)])))
			}
		} else {
			for _, line := range strings.Split(string(outb), "\n") {
				json.Unmarshal([]byte(line), &ro) //nolint:errcheck
			}
			run.Set("race_pass_runs", ro.Runs)
			run.Set("race_reports", 0)
		}
	}
	run.Set("per_scenario", perScenario)
	run.Set("bound_completed", completed)
	run.Finish()
}

// binding runs the whole-system companion (checks/c16sys): the capacity configured by the user is the
// capacity of the queue on the media path of a recording Client and of a Server session that plays.
func binding(run *evid.Run) {
	bin := os.Getenv("VERIF_SYS")
	if bin == "" {
		run.Fatal("VERIF_SYS not set: run through ./vcheck")
	}
	caps := "1,2,8,64,256"
	if run.Thorough() {
		caps = "1,2,4,8,16,32,64,128,256"
	}
	type res struct {
		Scenario string `json:"scenario"`
		N        int    `json:"capacity"`
		Accepted int    `json:"accepted"`
		Err      string `json:"harness_error"`
		Pushes   int    `json:"pushes"`
	}
	var out struct {
		Cases []res `json:"cases"`
		Slack int   `json:"slack"`
	}
	var first string
	for rep := 0; rep < 3; rep++ {
		b, err := exec.Command(bin, "--caps", caps).Output()
		if err != nil {
			run.Fatal("binding binary failed: %v", err)
		}
		if rep == 0 {
			first = string(b)
			if err := json.Unmarshal(b, &out); err != nil {
				run.Fatal("binding output: %v", err)
			}
		} else if string(b) != first {
			run.Flaky("binding: the accepted counts differ between two runs of the same cases")
			return
		}
	}
	base := map[string]int{}
	tab := map[string]map[string]int{}
	for _, c := range out.Cases {
		run.Eval(1)
		run.Trace(1)
		run.Transition(int64(c.Pushes))
		run.State(fmt.Sprint("binding/", c.Scenario, "/", c.N))
		run.Nontrivial(fmt.Sprint("binding/", c.Scenario, "/", c.N))
		run.Outcome(fmt.Sprint("binding/", c.Scenario, "/+", c.Accepted-c.N))
		if tab[c.Scenario] == nil {
			tab[c.Scenario] = map[string]int{}
		}
		tab[c.Scenario][fmt.Sprint(c.N)] = c.Accepted
		if c.Err != "" {
			run.Violation("binding/"+c.Scenario+"/harness", map[string]any{"case": c, "msg": c.Err})
			continue
		}
		d := c.Accepted - c.N
		if _, ok := base[c.Scenario]; !ok {
			base[c.Scenario] = d
		}
		switch {
		case d < 0:
			run.Violation("binding/"+c.Scenario+"/refused-below-configured-capacity", map[string]any{"case": c,
				"msg": fmt.Sprintf("configured capacity %d, but push %d was refused with the consumer stalled: only %d items were accepted", c.N, c.Pushes, c.Accepted)})
		case d > out.Slack:
			run.Violation("binding/"+c.Scenario+"/accepted-beyond-configured-capacity", map[string]any{"case": c,
				"msg": fmt.Sprintf("configured capacity %d, %d items accepted with the consumer stalled (the stalled network absorbs at most %d)", c.N, c.Accepted, out.Slack)})
		case d != base[c.Scenario]:
			run.Violation("binding/"+c.Scenario+"/capacity-does-not-follow-configuration", map[string]any{"case": c,
				"msg": fmt.Sprintf("accepted - configured = %d at capacity %d but %d at the first capacity: the queue size does not follow the configured value", d, c.N, base[c.Scenario])})
		}
	}
	run.Set("binding_accepted_by_capacity", tab)
}
