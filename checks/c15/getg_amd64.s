#include "textflag.h"

// func getg() uintptr — address of the running goroutine's descriptor (thread-local slot of the Go runtime).
TEXT ·getg(SB),NOSPLIT,$0-8
	MOVQ (TLS), AX
	MOVQ AX, ret+0(FP)
	RET
