package main

import (
	"encoding/json"
	"fmt"
	"math"
	"math/big"
	"sync"
	"sync/atomic"
	"time"

	"github.com/pion/rtcp"
	"github.com/pion/rtp"

	"github.com/bluenviron/gortsplib/v5/pkg/rtpreceiver"
	"github.com/bluenviron/gortsplib/v5/pkg/rtpsender"

	"verif/internal/evid"
)

func mustJSON(v any) json.RawMessage {
	b, err := json.Marshal(v)
	must(err)
	return b
}

type srCase struct {
	Rate          int     `json:"rate"`
	Seq           string  `json:"events"`  // P = packet written, R = sender report generated and processed
	Gaps          []int64 `json:"gaps_ns"` // virtual time before event i+1
	T0            uint32  `json:"first_rtp"`
	Base          int     `json:"ntp_base"` // 0: 1970-01-01, 1: 2000-01-01, 2: last event in the last two seconds of era 0
	SkewNs        int64   `json:"writer_ntp_skew_per_packet_ns"`
	OnlyFirstSync bool    `json:"only_first_packet_pts_equals_dts"`
	FeedAuto      bool    `json:"receiver_gets_the_senders_own_first_report"`
}

var (
	srOffsets = []int64{0, 1, -1, 3000, -3000, 1<<31 - 1, -(1<<31 - 1)}
	srSysBase = time.Date(2021, 6, 1, 0, 0, 0, 0, time.UTC) // the machines' system clock is unrelated to the writer's NTP
	big1e9    = big.NewInt(1e9)
)

type srRef struct { // what the latest processed report must be judged against
	rep   *rtcp.SenderReport
	tj    int64 // 64-bit media time of the writer's reference packet
	ntpj  int64 // its NTP, unix ns
	dNs   int64 // system time between that packet and the report
	label string
}

// runSR executes one event string; nq = number of PacketNTP answers judged.
func runSR(c *srCase) (e *oerr, nq int) {
	var st srStats
	e, nq = runSRx(c, &st)
	return
}

type srStats struct {
	nbig           int     // answers decided by math/big (float estimate too close to the bound)
	minErr, maxErr float64 // PacketNTP - writer's time, in ticks of the clock, over all answers
}

func runSRx(c *srCase, stats *srStats) (e *oerr, nq int) {
	nbig := 0
	minErr, maxErr := 0.0, 0.0
	defer func() {
		stats.nbig += nbig
		t := 1e9 / float64(c.Rate)
		stats.minErr = math.Min(stats.minErr, minErr/t)
		stats.maxErr = math.Max(stats.maxErr, maxErr/t)
	}()
	defer func() {
		if r := recover(); r != nil {
			e = fail("sender-receiver/panic", "panic: %v", r)
		}
	}()
	var now atomic.Int64
	timeNow := func() time.Time { return srSysBase.Add(time.Duration(now.Load())) }
	autoCh := make(chan rtcp.Packet, 8)
	snd := &rtpsender.Sender{ClockRate: c.Rate, Period: 24 * time.Hour, TimeNow: timeNow,
		WritePacketRTCP: func(p rtcp.Packet) { autoCh <- p }}
	snd.Initialize()
	defer snd.Close()
	rcv := &rtpreceiver.Receiver{ClockRate: c.Rate, LocalSSRC: 0x0badcafe, Period: 24 * time.Hour, TimeNow: timeNow,
		WritePacketRTCP: func(rtcp.Packet) {}}
	if err := rcv.Initialize(); err != nil {
		return fail("receiver/init", "%v", err), 0
	}
	defer rcv.Close()

	var total int64
	for _, g := range c.Gaps {
		total += g
	}
	var base time.Time
	switch c.Base {
	case 0:
		base = ntpSeconds[0]
	case 1:
		base = ntpSeconds[1]
	default:
		base = ntpSeconds[3].Add(-time.Duration(total) - time.Second)
	}
	baseNs := base.UnixNano()

	rate := int64(c.Rate)
	var ref *srRef
	var tj, ntpj, sysj int64 // the sender's current reference pair (last PTS==DTS packet)
	npkt := 0
	seq := uint16(65534)

	query := func(where string) *oerr {
		if ref == nil {
			if t, ok := rcv.PacketNTP(c.T0); ok {
				return fail("receiver/packet-ntp/before-report", "%s: PacketNTP answered %v before any sender report", where, t)
			}
			return nil
		}
		// media position of the writer at the report instant (exact floor), 64 bit
		x, _, okx := floorMulDiv(ref.dNs, rate, 1e9)
		if !okx {
			panic("harness: media position overflow")
		}
		xf := ref.tj + x
		tickNs := 1e9 / float64(rate)
		secs := int64(ref.rep.NTPTime>>32) - ntpUnixOffset
		frac := int64(ref.rep.NTPTime & 0xffffffff)
		for _, off := range srOffsets {
			ts := ref.rep.RTPTime + uint32(off)
			got, ok := rcv.PacketNTP(ts)
			nq++
			if !ok {
				return fail("receiver/packet-ntp/unavailable", "%s: PacketNTP(%d) not available after a sender report", where, ts)
			}
			gotNs := got.UnixNano()
			d32 := int64(int32(ts - ref.rep.RTPTime))

			// A: against the report itself. want = NTP(report) + int32(ts - RTP)/rate.
			// float64 estimate first (error < 0.1 ns for these magnitudes); math/big decides when the
			// estimate is within 0.5 ns of the bound.
			estA := float64(gotNs-secs*1e9) - float64(frac)*1e9/4294967296 - float64(d32)*1e9/float64(rate)
			if a := math.Abs(estA); a > tickNs+0.5 {
				exceeded := a > tickNs+1.5
				var gv *big.Int
				if !exceeded {
					// everything times 2^32 * rate
					w := new(big.Int).Mul(big.NewInt(secs), big1e9)
					w.Lsh(w, 32)
					w.Add(w, new(big.Int).Mul(big.NewInt(frac), big1e9))
					w.Mul(w, big.NewInt(rate))
					d := new(big.Int).Mul(big.NewInt(d32), big1e9)
					d.Lsh(d, 32)
					w.Add(w, d)
					gv = new(big.Int).Mul(big.NewInt(gotNs), big.NewInt(rate))
					gv.Lsh(gv, 32)
					gv.Sub(gv, w)
					bound := new(big.Int).Lsh(big.NewInt(1e9+rate), 32)
					exceeded = gv.CmpAbs(bound) > 0
					nbig++
				}
				if exceeded {
					return fail("receiver/packet-ntp", "%s: report (NTP %#x, RTP %d), PacketNTP(%d = RTP%+d) = %s, off by %.3f ns from NTP + int32(ts-RTP)/rate (allowed 1 tick + 1 ns = %.1f ns)",
						where, ref.rep.NTPTime, ref.rep.RTPTime, ts, off, got.UTC().Format(time.RFC3339Nano), estA, tickNs+1)
				}
			}
			// B: against what the writer said. T = 64-bit time congruent to ts nearest to the writer's position
			if d := int64(int32(ts - uint32(xf))); d >= 1<<31-2 || d <= -(1<<31)+2 {
				// within a tick of exactly half the 32-bit range from the writer's position: which of the two
				// congruent 64-bit times is "nearest" flips with the rounding of the report's own RTP time
				// (floor here, round-to-nearest in the report); the statement cannot tell them apart - part A
				// (against the report itself) has judged this probe
				continue
			}
			T := xf + int64(int32(ts-uint32(xf)))
			estB := float64(gotNs-ref.ntpj) - float64(T-ref.tj)*1e9/float64(rate)
			if estB < minErr {
				minErr = estB
			}
			if estB > maxErr {
				maxErr = estB
			}
			if a := math.Abs(estB); a > tickNs+0.5 {
				exceeded := a > tickNs+1.5
				if !exceeded {
					w := new(big.Int).Mul(big.NewInt(T-ref.tj), big1e9)
					gv := new(big.Int).Mul(big.NewInt(gotNs-ref.ntpj), big.NewInt(rate))
					gv.Sub(gv, w)
					exceeded = gv.CmpAbs(big.NewInt(1e9+rate)) > 0
					nbig++
				}
				if exceeded {
					return fail("sender-receiver/packet-ntp", "%s: writer tied RTP %d (64-bit %d) to %s, report generated %d ns later (NTP %#x, RTP %d); PacketNTP(%d = report RTP%+d, 64-bit %d) = %s, off by %.3f ns from the writer's time (allowed 1 tick + 1 ns = %.1f ns) [%s]",
						where, uint32(ref.tj), ref.tj, time.Unix(0, ref.ntpj).UTC().Format(time.RFC3339Nano), ref.dNs, ref.rep.NTPTime, ref.rep.RTPTime,
						ts, off, T, got.UTC().Format(time.RFC3339Nano), estB, tickNs+1, ref.label)
				}
			}
		}
		return nil
	}

	takeReport := func(p rtcp.Packet, label string) *oerr {
		sr, ok := p.(*rtcp.SenderReport)
		if !ok {
			return fail("sender/report-shape", "report is %T", p)
		}
		rcv.ProcessSenderReport(sr, timeNow())
		ref = &srRef{rep: sr, tj: tj, ntpj: ntpj, dNs: now.Load() - sysj, label: label}
		return nil
	}

	for i := 0; i < len(c.Seq); i++ {
		if i > 0 {
			now.Add(c.Gaps[i-1])
		}
		where := fmt.Sprintf("after event %d (%c)", i, c.Seq[i])
		switch c.Seq[i] {
		case 'P':
			el := now.Load()
			x, _, okx := floorMulDiv(el, rate, 1e9)
			if !okx {
				panic("harness: media position overflow")
			}
			T := int64(c.T0) + x
			sync := npkt == 0 || !c.OnlyFirstSync
			if !sync {
				T -= 3000 // a frame presented before the previous one
			}
			ntpk := baseNs + el + int64(npkt)*c.SkewNs
			pkt := &rtp.Packet{Header: rtp.Header{Version: 2, PayloadType: 96, SequenceNumber: seq, Timestamp: uint32(T), SSRC: 0x5eed5eed}, Payload: []byte{1, 2, 3, 4}}
			seq++
			snd.ProcessPacket(pkt, time.Unix(0, ntpk), sync)
			if sync {
				tj, ntpj, sysj = T, ntpk, el
			}
			if npkt == 0 {
				auto := <-autoCh // the sender's goroutine reports right after the first packet
				if c.FeedAuto {
					if e := takeReport(auto, "sender's own first report"); e != nil {
						return e, nq
					}
				}
			}
			npkt++
			rcv.ProcessPacket2(pkt, timeNow(), sync)
		case 'R':
			if e := takeReport(snd.VerifReport(), fmt.Sprintf("report generated at event %d", i)); e != nil {
				return e, nq
			}
		}
		if e := query(where); e != nil {
			return e, nq
		}
	}
	return nil, nq
}

func srSequences() []string {
	var out []string
	var rec func(s string, p, r int)
	rec = func(s string, p, r int) {
		out = append(out, s)
		if p < 3 {
			rec(s+"P", p+1, r)
		}
		if r < 2 {
			rec(s+"R", p, r+1)
		}
	}
	rec("P", 1, 0)
	return out
}

func partSR() {
	gaps := []int64{0, 1, 1e6, 1e9, 3600e9, 30 * 3600e9, 60 * 3600e9} // the last two: nanoseconds x clock rate beyond 2^63 at 90 kHz / 44.1 kHz
	if run.Thorough() {
		gaps = append(gaps, 333333, 14*3600e9, 400*3600e9)
	}
	seqs := srSequences()
	run.Set("sr_event_strings", len(seqs))
	type item struct {
		rate int
		seq  string
		t0   uint32
		base int
	}
	var items []item
	for _, r := range []int{8000, 44100, 90000} {
		for _, s := range seqs {
			for _, t0 := range []uint32{0, 1<<32 - 1000, 1<<31 - 1} {
				for b := 0; b < 3; b++ {
					items = append(items, item{r, s, t0, b})
				}
			}
		}
	}
	var queries, bigDecided atomic.Int64
	var errMu sync.Mutex
	errMin, errMax := 0.0, 0.0
	evid.Parallel(len(items), 16, func(ii int) {
		it := items[ii]
		if tooMany() {
			return
		}
		ng := len(it.seq) - 1
		c := srCase{Rate: it.rate, Seq: it.seq, T0: it.t0, Base: it.base, Gaps: make([]int64, ng)}
		g := run.Begin("sender-receiver", func() any { return c })
		defer g.End()
		n := 1
		for i := 0; i < ng; i++ {
			n *= len(gaps)
		}
		var evals, nq int64
		var st srStats
		hasR := false
		for _, ch := range it.seq {
			if ch == 'R' {
				hasR = true
			}
		}
		for v := 0; v < n; v++ {
			x := v
			for i := ng - 1; i >= 0; i-- {
				c.Gaps[i] = gaps[x%len(gaps)]
				x /= len(gaps)
			}
			for _, skew := range []int64{0, 250e6} {
				for _, ofs := range []bool{false, true} {
					for _, auto := range []bool{false, true} {
						c.SkewNs, c.OnlyFirstSync, c.FeedAuto = skew, ofs, auto
						e, q := runSRx(&c, &st)
						evals++
						nq += int64(q)
						if hasR || auto {
							run.NontrivialHash(mix(4, uint64(ii), uint64(v), uint64(skew), b2u(ofs), b2u(auto)))
						}
						if e != nil {
							cc := c
							cc.Gaps = append([]int64{}, c.Gaps...)
							report("sr", cc, e, func() *oerr { e2, _ := runSR(&cc); return e2 })
							if tooMany() {
								return
							}
						} else if ii%41 == 13 && v == n/2 && skew != 0 && !ofs && auto {
							cc := c
							cc.Gaps = append([]int64{}, c.Gaps...)
							samplePart("sr", func() any {
								return map[string]any{"part": "sender-receiver", "case": cc, "packet_ntp_answers_judged": q}
							})
						}
					}
				}
			}
			g.Touch()
		}
		run.Eval(evals)
		run.AddInt("sr_cases", evals)
		queries.Add(nq)
		bigDecided.Add(int64(st.nbig))
		errMu.Lock()
		errMin, errMax = math.Min(errMin, st.minErr), math.Max(errMax, st.maxErr)
		errMu.Unlock()
		run.Outcome(fmt.Sprintf("sr %s rate=%d judged=%v", it.seq, it.rate, nq > 0))
	})
	run.Set("sr_packet_ntp_answers_judged", queries.Load())
	run.Set("sr_answers_decided_by_math_big", bigDecided.Load())
	run.Set("sr_error_range_in_ticks", []float64{math.Round(errMin*1e4) / 1e4, math.Round(errMax*1e4) / 1e4})
}
