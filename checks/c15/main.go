// C15 — Timestamps: 64-bit PTS continuation and NTP mapping.
//
// Four exhaustively enumerated spaces on the real library code (no sampling, no wall clock):
//
//  1. rtptime.GlobalDecoder, one track: clock rates x initial timestamps x every step sequence
//     (pts.go). Oracle: PTS(n) - PTS(0) = sum of int32(ts[i] - ts[i-1]), in the decoder's own unit (ticks).
//  2. rtptime.GlobalDecoder, a second track joining after every lead prefix at virtual offsets
//     (pts.go). The package-level time source of rtptime is replaced through the verif accessor and
//     is driven per worker thread (clock.go).
//  3. ntp.Encode / ntp.Decode for four seconds x nanosecond values (ntp.go).
//  4. rtpsender.Sender -> sender report -> rtpreceiver.Receiver.PacketNTP for every interleaving of
//     <=3 packets and <=2 reports (sr.go).
package main

import (
	"encoding/json"
	"fmt"
	"os"
	"runtime/pprof"
	"sync"
	"sync/atomic"

	"verif/internal/evid"
)

type oerr struct {
	sig string
	msg string
}

func fail(sig, f string, a ...any) *oerr { return &oerr{sig, fmt.Sprintf(f, a...)} }

// replayT is the "detail" member of every replay file written by this check.
type replayT struct {
	Kind string          `json:"kind"` // pts | late | ntp | sr
	Case json.RawMessage `json:"case"`
	Msg  string          `json:"msg"`
}

var (
	run      *evid.Run
	vioTotal atomic.Int64 // violations of the part that is running
	vioCap   atomic.Bool
	partName string
)

const vioStop = 500

// startPart resets the per-part violation counter.
func startPart(name string) {
	partName = name
	vioTotal.Store(0)
	vioCap.Store(false)
}

// tooMany stops the enumeration of a part that is drowning in violations (a broken tree): the run
// is then reported as not exhaustive, the verdict stays "violation"; the other parts still run.
func tooMany() bool {
	if vioTotal.Load() < vioStop {
		return false
	}
	if vioCap.CompareAndSwap(false, true) {
		run.Cap(fmt.Sprintf("part %s cut short after %d violations", partName, vioStop))
	}
	return true
}

// report re-runs a failing case (determinism rule) and records the violation.
func report(kind string, c any, e *oerr, again func() *oerr) {
	n := vioTotal.Add(1)
	if n <= 200 { // re-running is pointless once the tree is known to be broken
		for i := 0; i < 3; i++ {
			e2 := again()
			if e2 == nil || e2.sig != e.sig {
				run.Flaky(fmt.Sprintf("%s did not reproduce: %+v", e.sig, c))
				return
			}
		}
	}
	b, _ := json.Marshal(c)
	run.Violation(e.sig, replayT{Kind: kind, Case: b, Msg: e.msg})
}

func main() {
	run = evid.New("C15", "exploration")
	run.Rule("four finite spaces, each enumerated completely (products of the menus below, every element once, so every case is distinct by construction). " +
		"(2b) late track behind B-frames: lead rate {8000,44100,48000,90000,1e9} x initial timestamps x S in 0..2 packets that are PTS==DTS then J in 0..3 that are not, the lead's timestamps following real time exactly (10 ms per packet on both clocks), x join rate x offset x join initial timestamp: the joining track belongs at the lead's last PTS + offset whichever packet the implementation anchors on. " +
		"(1) GlobalDecoder single track: rates {1,7,8000,44100,48000,90000,1e9} x initial RTP timestamps {0,1,2^31-1,2^31,2^32-2,2^32-1} x {all packets PTS==DTS | packets reached by a negative step are not PTS==DTS} x EVERY sequence of exactly D steps over {+1,-1,+1500,-1500,+90000,-90000,+(2^31-1),-(2^31-1),+2^30,+(2^31-2)} with D=4 quick / 6 thorough; the decoder output is checked after every step, so every shorter sequence is covered as a prefix; plus 1 or 2 leading packets that are not PTS==DTS (must be refused) in front of every sequence of 3 steps. (1b) many joiners: for the all-PTS==DTS variant EVERY sequence of EVERY length 0..D is run on its own decoder and followed by 35 more tracks joining that decoder: at each offset {0,1ns,1ms,1s,1h} after the lead's last packet (ascending) one new track per rate; each placement is judged like in (2). " +
		"(2) late track: lead rate x lead initial timestamp x every lead step sequence of length 0..L (L=3 quick, 4 thorough; 20 ms of virtual time between lead packets) x joining rate (same menu) x virtual offset after the lead's last packet {0,1ns,1ms,1s,1h} x joining initial timestamp {5,2^32-2}; after joining the second track walks through all ten menu steps and the lead takes one more step. " +
		"(3) NTP: seconds {1970-01-01T00:00:00, 2000-01-01T00:00:00, 2035-12-31T23:59:59, 2036-02-07T06:28:15 (last second of NTP era 0)} x nanoseconds: thorough ALL 10^9, quick every 1009th plus the first and last 20000. " +
		"(4) sender->receiver: rates {8000,44100,90000} x every event string over {P=packet written, R=sender report generated and processed} that starts with P and has <=3 P and <=2 R x virtual time between consecutive events from {0,1ns,1ms,1s,1h} (thorough adds 333333ns and 14h, which wraps the 32-bit RTP time of the report at 90 kHz) x first RTP timestamp {0,2^32-1000,2^31-1} x NTP base {1970-01-01, 2000-01-01, such that the last event falls in the last two seconds of NTP era 0} x writer NTP skew per packet {0,250ms} x {all packets PTS==DTS | only the first} x {receiver also processes the report the sender emits by itself after the first packet | not}; after every event PacketNTP is asked for the report's RTP time +{0,+-1,+-3000,+-(2^31-1)}. " +
		"non-trivial: (1) the 32-bit timestamp wraps at least once or a step is negative; (1b),(2) every case (several tracks); (4) at least one report processed. NTP instants are counted in evaluations and in ntp_instants but not in distinct_nontrivial (set capacity 8M, counted conservatively).")
	run.Assume("GlobalDecoder returns ticks of the track's clock (int64), so part 1 is compared exactly, no rounding allowance")
	run.Assume("the statement does not fix PTS(0); only differences are judged (the observed first PTS is recorded as an outcome)")
	run.Assume("late track: the statement only says 'placed on the leading track's timeline'; weaker reading taken: |first PTS - (lead_pts*r2/r1 + elapsed*r2/1e9)| < 2 ticks of the joining track's clock (each of the two terms may be truncated to a tick); lead_pts is the reference model's value for the lead's last packet, elapsed is measured from that packet. Cases whose exact placement does not fit in int64 are skipped and counted (late_unrepresentable)")
	run.Assume("rtptime's unexported package variable timeNow is set through hooks/pkg/rtptime/zz_verif_hooks.go; each worker goroutine owns one virtual clock, looked up by goroutine identity (amd64; by locked OS thread id elsewhere); no real time is read")
	run.Assume("NTP: besides |Decode(Encode(t))-t| <= 1ns and monotonicity, Encode is compared with the RFC 3550 definition ((unix+2208988800)<<32 | floor(ns*2^32/1e9)) with a tolerance of 5 fraction units (~1.2 ns)")
	run.Assume("sender->receiver: the writer's time for a 32-bit timestamp ts is ntp_j + (T - T_j)/rate where (T_j, ntp_j) is the pair given to Sender.ProcessPacket with the last PTS==DTS packet before the latest processed report was generated and T is the 64-bit value congruent to ts nearest to the writer's media position at the report instant; bound |PacketNTP - that| <= 1 tick + 1 ns (symmetric). Sender reports are obtained by calling the unexported report() through hooks/pkg/rtpsender/zz_verif_hooks.go (Period is 24h so the ticker never fires); the report emitted by the sender's own goroutine after the first packet is awaited on a channel (synchronisation, not a sleep). 'Report period' is the virtual time between R events")
	run.Assume("float64->uint32 conversion in Sender.report for products >= 2^32 is platform-defined by the Go spec; the run is on amd64 where it wraps")

	selfTest()

	if run.Replay != "" {
		var r replayT
		if err := evid.LoadReplay(run.Replay, &r); err != nil {
			run.Fatal("replay: %v", err)
		}
		var e *oerr
		switch r.Kind {
		case "pts":
			var c ptsCase
			must(json.Unmarshal(r.Case, &c))
			pinned(1, 1, func(_ int, clk *vclock) { e, _, _ = runPTS(&c, clk, nil) })
			finishReplay("pts", c, e)
		case "late":
			var c lateCase
			must(json.Unmarshal(r.Case, &c))
			pinned(1, 1, func(_ int, clk *vclock) { e, _ = runLate(&c, clk) })
			finishReplay("late", c, e)
		case "late-rt":
			var c lateRTCase
			must(json.Unmarshal(r.Case, &c))
			pinned(1, 1, func(_ int, clk *vclock) { e = runLateRT(&c, clk) })
			finishReplay("late-rt", c, e)
		case "ntp":
			var c ntpCase
			must(json.Unmarshal(r.Case, &c))
			e = runNTPCase(c)
			finishReplay("ntp", c, e)
		case "sr":
			var c srCase
			must(json.Unmarshal(r.Case, &c))
			e, _ = runSR(&c)
			finishReplay("sr", c, e)
		default:
			run.Fatal("replay: unknown kind %q", r.Kind)
		}
	}

	if pf := os.Getenv("C15_PROF"); pf != "" { // development aid
		f, err := os.Create(pf)
		must(err)
		must(pprof.StartCPUProfile(f))
		stopProf = pprof.StopCPUProfile
	}
	only := os.Getenv("C15_ONLY") // development aid: run a single part (the run is then marked not exhaustive)
	if only != "" {
		run.Cap("C15_ONLY=" + only)
	}
	if only == "" || only == "pts" {
		startPart("pts-continuation")
		partPTS()
	}
	if only == "" || only == "late" {
		startPart("late-track")
		partLate()
		partLateRT()
	}
	if only == "" || only == "sr" {
		startPart("sender-receiver")
		partSR()
	}
	if only == "" || only == "ntp" {
		startPart("ntp")
		partNTP()
	}
	stopProf()
	run.Finish()
}

var stopProf = func() {}

var sampleCount sync.Map // part -> *atomic.Int64

// samplePart keeps at most three written-out cases per part.
func samplePart(part string, v func() any) {
	c, _ := sampleCount.LoadOrStore(part, new(atomic.Int64))
	if c.(*atomic.Int64).Add(1) <= 3 {
		run.Sample(v())
	}
}

func finishReplay(kind string, c any, e *oerr) {
	run.Eval(1)
	if e != nil {
		fmt.Println("replay reproduces:", e.sig, e.msg)
		b, _ := json.Marshal(c)
		run.Violation(e.sig, replayT{Kind: kind, Case: b, Msg: e.msg})
	} else {
		fmt.Println("replay: no violation")
	}
	run.Finish()
}

func must(err error) {
	if err != nil {
		run.Fatal("%v", err)
	}
}
