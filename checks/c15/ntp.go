package main

import (
	"fmt"
	"sync/atomic"
	"time"

	"github.com/bluenviron/gortsplib/v5/pkg/ntp"

	"verif/internal/evid"
)

var ntpSeconds = []time.Time{
	time.Date(1970, 1, 1, 0, 0, 0, 0, time.UTC),
	time.Date(2000, 1, 1, 0, 0, 0, 0, time.UTC),
	time.Date(2035, 12, 31, 23, 59, 59, 0, time.UTC),
	time.Date(2036, 2, 7, 6, 28, 15, 0, time.UTC), // 2^32-1 seconds after 1900: last second of NTP era 0
}

const ntpUnixOffset = 2208988800

type ntpCase struct {
	Sec    int64 `json:"unix_sec"`
	Ns     int64 `json:"ns"`
	PrevNs int64 `json:"prev_ns"` // the instant it is compared with for monotonicity (-1: none)
}

// ntpOne checks one instant; returns the round-trip difference in ns and the encoding.
func ntpOne(sec, ns int64) (e *oerr, diff int64, enc uint64) {
	t := time.Unix(sec, ns)
	enc = ntp.Encode(t)
	back := ntp.Decode(enc)
	diff = back.UnixNano() - (sec*1e9 + ns)
	if diff < -1 || diff > 1 {
		return fail("ntp/roundtrip", "Decode(Encode(%s)) = %s: off by %d ns", t.UTC().Format(time.RFC3339Nano), back.UTC().Format(time.RFC3339Nano), diff), diff, enc
	}
	ref := uint64(sec+ntpUnixOffset)<<32 | (uint64(ns)<<32)/1e9
	dr := int64(enc - ref)
	if dr < -5 || dr > 5 {
		return fail("ntp/encode-reference", "Encode(%s) = %#x, RFC 3550 value %#x (difference %d units of 2^-32 s)", t.UTC().Format(time.RFC3339Nano), enc, ref, dr), diff, enc
	}
	return nil, diff, enc
}

func runNTPCase(c ntpCase) (e *oerr) {
	defer func() {
		if r := recover(); r != nil {
			e = fail("ntp/panic", "panic: %v", r)
		}
	}()
	e, _, enc := ntpOne(c.Sec, c.Ns)
	if e != nil {
		return e
	}
	if c.PrevNs >= 0 {
		_, _, prev := ntpOne(c.Sec, c.PrevNs)
		if enc < prev {
			return fail("ntp/encode-not-monotone", "Encode(sec %d + %d ns) = %#x < Encode(sec %d + %d ns) = %#x", c.Sec, c.Ns, enc, c.Sec, c.PrevNs, prev)
		}
	}
	return nil
}

func partNTP() {
	// the list of nanosecond values is described by ranges [lo,hi) with a stride
	type rng struct{ lo, hi, stride int64 }
	var ranges []rng
	if run.Thorough() {
		const chunks = 64
		for i := int64(0); i < chunks; i++ {
			ranges = append(ranges, rng{i * (1e9 / chunks), (i + 1) * (1e9 / chunks), 1})
		}
	} else {
		ranges = append(ranges, rng{0, 20000, 1})
		// stride 1009 between the two ends, cut into 16 pieces; every piece starts on the stride grid
		first := int64(20000+1008) / 1009 * 1009
		per := (int64(1e9-20000) - first) / 1009 / 16 * 1009
		for i := int64(0); i < 16; i++ {
			lo := first + i*per
			hi := lo + per
			if i == 15 {
				hi = 1e9 - 20000
			}
			ranges = append(ranges, rng{lo, hi, 1009})
		}
		ranges = append(ranges, rng{1e9 - 20000, 1e9, 1})
	}
	var dm1, d0, dp1, ties, total atomic.Int64
	nsec := len(ntpSeconds)
	evid.Parallel(nsec*len(ranges), 16, func(i int) {
		if tooMany() {
			return
		}
		sec := ntpSeconds[i/len(ranges)].Unix()
		r := ranges[i%len(ranges)]
		cur := ntpCase{Sec: sec, Ns: r.lo, PrevNs: -1}
		g := run.Begin("ntp", func() any { return cur })
		defer g.End()
		defer func() {
			if p := recover(); p != nil {
				report("ntp", cur, fail("ntp/panic", "panic: %v", p), func() *oerr { return runNTPCase(cur) })
			}
		}()
		// predecessor on the grid (previous range's last element) for the monotonicity chain
		var prev uint64
		prevNs := int64(-1)
		if i%len(ranges) != 0 {
			pr := ranges[i%len(ranges)-1]
			prevNs = pr.lo + (pr.hi-1-pr.lo)/pr.stride*pr.stride
			prev = ntp.Encode(time.Unix(sec, prevNs))
		}
		var lm1, l0, lp1, lties, n int64
		for ns := r.lo; ns < r.hi; ns += r.stride {
			e, diff, enc := ntpOne(sec, ns)
			n++
			switch diff {
			case -1:
				lm1++
			case 0:
				l0++
			case 1:
				lp1++
			}
			if e == nil && prevNs >= 0 {
				if enc < prev {
					e = fail("ntp/encode-not-monotone", "Encode(sec %d + %d ns) = %#x < Encode(sec %d + %d ns) = %#x", sec, ns, enc, sec, prevNs, prev)
				} else if enc == prev {
					lties++
				}
			}
			if e != nil {
				c := ntpCase{Sec: sec, Ns: ns, PrevNs: prevNs}
				report("ntp", c, e, func() *oerr { return runNTPCase(c) })
				if tooMany() {
					break
				}
			}
			prev, prevNs = enc, ns
			if n&0xfffff == 0 {
				cur.Ns = ns
				g.Touch()
			}
		}
		dm1.Add(lm1)
		d0.Add(l0)
		dp1.Add(lp1)
		ties.Add(lties)
		total.Add(n)
		run.Eval(n)
		if lm1 > 0 {
			run.Outcome("ntp roundtrip -1ns")
		}
		if l0 > 0 {
			run.Outcome("ntp roundtrip exact")
		}
		if lp1 > 0 {
			run.Outcome("ntp roundtrip +1ns")
		}
	})
	// each second of the menu is followed by a strictly larger encoding (except the era's last second)
	for _, s := range ntpSeconds[:3] {
		a := ntp.Encode(s.Add(999999999))
		b := ntp.Encode(s.Add(time.Second))
		run.Eval(1)
		if b <= a {
			c := ntpCase{Sec: s.Unix() + 1, Ns: 0, PrevNs: -1}
			run.Violation("ntp/encode-not-monotone/second-boundary", replayT{Kind: "ntp", Msg: fmt.Sprintf("Encode(%v+1s)=%#x <= Encode(%v+999999999ns)=%#x", s, b, s, a), Case: mustJSON(c)})
		}
	}
	run.Set("ntp_instants", total.Load())
	run.Set("ntp_roundtrip_histogram", map[string]int64{"-1ns": dm1.Load(), "0": d0.Load(), "+1ns": dp1.Load()})
	run.Set("ntp_equal_consecutive_encodings", ties.Load())
	run.Sample(map[string]any{"part": "ntp", "instant": ntpSeconds[3].Add(999999999).Format(time.RFC3339Nano), "encoded": fmt.Sprintf("%#x", ntp.Encode(ntpSeconds[3].Add(999999999)))})
}
