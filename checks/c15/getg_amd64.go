package main

// lockThread: the worker identity is the goroutine itself, no OS thread pinning needed.
const lockThread = false

// getg identifies the calling goroutine (implemented in getg_amd64.s); used only as a key that
// selects the caller's virtual clock.
func getg() uintptr
