//go:build !amd64

package main

import "syscall"

// lockThread: workers are locked to an OS thread and identified by the thread id.
const lockThread = true

func getg() uintptr { return uintptr(syscall.Gettid()) }
