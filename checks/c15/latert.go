package main

import (
	"fmt"

	"github.com/pion/rtp"

	"github.com/bluenviron/gortsplib/v5/pkg/rtptime"
)

// Late track behind a lead that carries packets which are not PTS==DTS (B-frames). The lead's RTP
// timestamps follow real time exactly (every packet is 10 ms of virtual time and 10 ms of its clock after
// the previous one), so "the leading track's timeline" is unambiguous whichever of the lead's packets an
// implementation anchors on: a track that joins OffNs after the lead's last packet belongs at the lead's
// last PTS + OffNs. Cases: lead rate x initial timestamp x S packets that are PTS==DTS followed by J that
// are not x join rate x offset.

type lateRTCase struct {
	R1      int    `json:"lead_rate"`
	Init1   uint32 `json:"lead_init"`
	Sync    int    `json:"lead_packets_pts_equals_dts"`
	NonSync int    `json:"then_lead_packets_not_pts_equals_dts"`
	R2      int    `json:"join_rate"`
	OffNs   int64  `json:"offset_ns"`
	Init2   uint32 `json:"join_init"`
}

const rtGapNs = 10e6

func runLateRT(c *lateRTCase, clk *vclock) (e *oerr) {
	defer func() {
		if r := recover(); r != nil {
			e = fail("globaldecoder/panic", "panic: %v", r)
		}
	}()
	d := &rtptime.GlobalDecoder{}
	d.Initialize()
	lead := &trk{rate: c.R1, sync: true}
	var pkt rtp.Packet
	pkt.Version = 2
	clk.ns = 0
	ts := c.Init1
	pkt.Timestamp = ts
	p0, ok := d.Decode(lead, &pkt)
	if !ok {
		return fail("globaldecoder/first-packet-refused", "lead: first packet refused")
	}
	step := uint32(c.R1 / 100)
	var sum int64
	for i := 0; i < c.Sync+c.NonSync; i++ {
		lead.sync = i < c.Sync
		ts += step
		sum += int64(step)
		clk.ns += rtGapNs
		pkt.Timestamp = ts
		p, ok := d.Decode(lead, &pkt)
		if !ok || p-p0 != sum {
			return fail(fmt.Sprintf("globaldecoder/pts-continuation/%d", c.R1), "lead packet %d (PTS==DTS: %v): ok=%v PTS-PTS(0)=%d want %d", i+1, lead.sync, ok, p-p0, sum)
		}
	}
	clk.ns += c.OffNs
	second := &trk{rate: c.R2, sync: true}
	pkt.Timestamp = c.Init2
	got, ok := d.Decode(second, &pkt)
	if !ok {
		return fail("globaldecoder/late-track/refused", "joining track: first packet refused")
	}
	if _, msg := placement(p0+sum, c.R1, c.R2, c.OffNs, got); msg != "" {
		return fail("globaldecoder/late-track/behind-non-sync-packets", "%s; the lead sent %d packets that are PTS==DTS and then %d that are not, each 10 ms of real time and of its own clock apart", msg, c.Sync, c.NonSync)
	}
	return nil
}

func partLateRT() {
	var cases []lateRTCase
	for _, r1 := range menuRates {
		if r1%100 != 0 {
			continue
		}
		for _, in := range menuInits {
			for s := 0; s <= 2; s++ {
				for j := 0; j <= 3; j++ {
					for _, r2 := range menuRates {
						for _, off := range menuOffsets {
							for _, in2 := range menuInits2 {
								cases = append(cases, lateRTCase{r1, in, s, j, r2, off, in2})
							}
						}
					}
				}
			}
		}
	}
	pinned(len(cases), 16, func(i int, clk *vclock) {
		if tooMany() {
			return
		}
		c := cases[i]
		g := run.Begin("globaldecoder/late-track", func() any { return c })
		defer g.End()
		e := runLateRT(&c, clk)
		run.Eval(1)
		run.NontrivialHash(mix(7, uint64(c.R1), uint64(c.Init1), uint64(c.Sync), uint64(c.NonSync), uint64(c.R2), uint64(c.OffNs), uint64(c.Init2)))
		run.Outcome(fmt.Sprintf("late-rt r1=%d ok=%v", c.R1, e == nil))
		if e != nil {
			report("late-rt", c, e, func() *oerr { return runLateRT(&c, clk) })
		}
	})
	run.AddInt("late_realtime_cases", int64(len(cases)))
}
