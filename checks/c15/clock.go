package main

import (
	"fmt"
	"math"
	"math/big"
	"math/bits"
	"runtime"
	"sync"
	"sync/atomic"
	"time"

	"github.com/bluenviron/gortsplib/v5/pkg/rtptime"
)

// rtptime reads a package-level time source. The check replaces it with dispatchNow, which returns
// the virtual clock of the calling worker. Workers are registered before any of them starts working,
// keyed by getg(): the goroutine's identity on amd64, elsewhere the id of the OS thread the worker
// is locked to.

type vclock struct {
	ns    int64 // nanoseconds since clockEpoch
	calls int64
	_     [48]byte
}

var clockEpoch = time.Date(2024, 3, 1, 12, 0, 0, 0, time.UTC)

var clockTab struct {
	mu   sync.Mutex
	n    int
	tids [64]uintptr
	clks [64]*vclock
}

func dispatchNow() time.Time {
	tid := getg()
	for i := 0; i < clockTab.n; i++ {
		if clockTab.tids[i] == tid {
			c := clockTab.clks[i]
			c.calls++
			return clockEpoch.Add(time.Duration(c.ns))
		}
	}
	panic("c15 harness: rtptime asked for the time on a goroutine that owns no virtual clock")
}

var clockCalls atomic.Int64

// pinned runs f(i, clock) for i in [0,n) on `workers` goroutines, each owning one virtual clock.
func pinned(n, workers int, f func(i int, clk *vclock)) {
	rtptime.VerifSetTimeNow(dispatchNow)
	clockTab.mu.Lock()
	clockTab.n = 0
	clockTab.mu.Unlock()
	var next atomic.Int64
	var ready, done sync.WaitGroup
	ready.Add(workers)
	for w := 0; w < workers; w++ {
		done.Add(1)
		go func() {
			defer done.Done()
			if lockThread {
				runtime.LockOSThread() // never unlocked: the thread ends with the goroutine
			}
			clk := &vclock{}
			clockTab.mu.Lock()
			clockTab.tids[clockTab.n] = getg()
			clockTab.clks[clockTab.n] = clk
			clockTab.n++
			clockTab.mu.Unlock()
			ready.Done()
			ready.Wait() // table is read-only from here on
			for {
				i := int(next.Add(1) - 1)
				if i >= n {
					break
				}
				f(i, clk)
			}
			clockCalls.Add(clk.calls)
		}()
	}
	done.Wait()
}

// floorMulDiv returns floor(a*b/c) and the remainder in [0,c) for b >= 0, c > 0, using a 128-bit
// intermediate; ok=false when the quotient does not fit in int64.
func floorMulDiv(a, b, c int64) (q, r int64, ok bool) {
	neg := a < 0
	ua := uint64(a)
	if neg {
		ua = uint64(-a)
	}
	hi, lo := bits.Mul64(ua, uint64(b))
	if hi >= uint64(c) {
		return 0, 0, false
	}
	uq, ur := bits.Div64(hi, lo, uint64(c))
	if uq > math.MaxInt64-1 {
		return 0, 0, false
	}
	if !neg {
		return int64(uq), int64(ur), true
	}
	if ur == 0 {
		return -int64(uq), 0, true
	}
	return -int64(uq) - 1, c - int64(ur), true
}

// selfTest compares the 128-bit helper with math/big on a menu (harness error on mismatch).
func selfTest() {
	as := []int64{0, 1, -1, 7, -7, 1499, -1501, 1 << 31, -(1 << 31), 6 * (1<<31 - 1), -6 * (1<<31 - 1), 3600e9, 999999999, -999999999, 12884901882}
	bs := []int64{1, 7, 8000, 44100, 48000, 90000, 1000000000}
	cs := []int64{1, 7, 8000, 44100, 48000, 90000, 1000000000}
	for _, a := range as {
		for _, b := range bs {
			for _, c := range cs {
				q, r, ok := floorMulDiv(a, b, c)
				p := new(big.Int).Mul(big.NewInt(a), big.NewInt(b))
				bq, br := new(big.Int).DivMod(p, big.NewInt(c), new(big.Int)) // Euclidean = floor for c>0
				fits := bq.IsInt64() && bq.Int64() < math.MaxInt64
				if ok != fits || (ok && (bq.Int64() != q || br.Int64() != r)) {
					fmt.Printf("floorMulDiv(%d,%d,%d) = %d rem %d ok=%v; big says %s rem %s\n", a, b, c, q, r, ok, bq, br)
					run.Fatal("128-bit helper disagrees with math/big")
				}
			}
		}
	}
}
