package main

import (
	"fmt"
	"math"
	"sync/atomic"

	"github.com/pion/rtp"

	"github.com/bluenviron/gortsplib/v5/pkg/rtptime"
)

var (
	menuSteps   = []int64{1, -1, 1500, -1500, 90000, -90000, 1<<31 - 1, -(1<<31 - 1), 1 << 30, 1<<31 - 2}
	menuRates   = []int{1, 7, 8000, 44100, 48000, 90000, 1000000000}
	menuInits   = []uint32{0, 1, 1<<31 - 1, 1 << 31, 1<<32 - 2, 1<<32 - 1}
	menuOffsets = []int64{0, 1, 1e6, 1e9, 3600e9}
	menuInits2  = []uint32{5, 1<<32 - 2}
)

const leadGapNs = 20e6 // virtual time between two packets of a track

// trk is the harness' track; Sync is what PTSEqualsDTS answers for the packet being decoded.
type trk struct {
	rate int
	sync bool
}

func (t *trk) ClockRate() int                { return t.rate }
func (t *trk) PTSEqualsDTS(*rtp.Packet) bool { return t.sync }

type ptsCase struct {
	Rate    int    `json:"rate"`
	Init    uint32 `json:"init"`
	Steps   []int  `json:"steps"`    // indices into the step menu
	BFrames bool   `json:"b_frames"` // packets reached by a negative step are not PTS==DTS
	Skip    int    `json:"skip"`     // leading packets that are not PTS==DTS (must be refused)
	Join    bool   `json:"join"`     // after the sequence 35 more tracks join: every rate at every offset, in ascending offset order
}

func (c *ptsCase) describe() map[string]any {
	st := make([]int64, len(c.Steps))
	for i, s := range c.Steps {
		st[i] = menuSteps[s]
	}
	return map[string]any{"part": "pts-continuation", "rate": c.Rate, "init": c.Init, "steps": st, "b_frames": c.BFrames, "skip": c.Skip, "then_35_tracks_join": c.Join}
}

// joinClasses counts the placement classes of the joins of one runPTS call.
type joinClasses [3]int64

// runPTS feeds one step sequence to a fresh decoder. wraps = number of 2^32 crossings (either way).
func runPTS(c *ptsCase, clk *vclock, jc *joinClasses) (e *oerr, wraps int, p0 int64) {
	defer func() {
		if r := recover(); r != nil {
			e = fail("globaldecoder/panic", "panic: %v", r)
		}
	}()
	d := &rtptime.GlobalDecoder{}
	d.Initialize()
	t := &trk{rate: c.Rate, sync: true}
	var pkt rtp.Packet
	pkt.Version = 2
	clk.ns = 0
	for k := 0; k < c.Skip; k++ {
		t.sync = false
		pkt.Timestamp = c.Init - uint32(5000*(c.Skip-k))
		if v, ok := d.Decode(t, &pkt); ok {
			return fail("globaldecoder/non-sync-first-accepted", "packet %d of a new track is not PTS==DTS but Decode returned (%d,true)", k, v), 0, 0
		}
		clk.ns += leadGapNs
	}
	t.sync = true
	pkt.Timestamp = c.Init
	p0, ok := d.Decode(t, &pkt)
	if !ok {
		return fail("globaldecoder/first-packet-refused", "first PTS==DTS packet refused"), 0, 0
	}
	ts := c.Init
	var sum int64
	for i, si := range c.Steps {
		st := menuSteps[si]
		nts := ts + uint32(st)
		d32 := int32(nts - ts) // the statement's signed 32-bit difference
		if int64(d32) != st {
			panic("harness: step does not fit int32")
		}
		if st > 0 && nts < ts || st < 0 && nts > ts {
			wraps++
		}
		ts = nts
		sum += int64(d32)
		clk.ns += leadGapNs
		t.sync = !(c.BFrames && st < 0)
		pkt.Timestamp = ts
		p, ok := d.Decode(t, &pkt)
		if !ok {
			return fail("globaldecoder/packet-refused", "packet %d refused", i+1), wraps, p0
		}
		if p-p0 != sum {
			return fail(fmt.Sprintf("globaldecoder/pts-continuation/%d", c.Rate), "after step %d (%+d, ts=%d): PTS-PTS(0) = %d, accumulated signed 32-bit differences = %d", i+1, st, ts, p-p0, sum), wraps, p0
		}
	}
	if c.Join {
		// every packet of the lead was PTS==DTS, so the lead's reference is its last packet
		tLast := clk.ns
		for _, off := range menuOffsets { // ascending
			clk.ns = tLast + off
			for _, r2 := range menuRates {
				nt := &trk{rate: r2, sync: true}
				pkt.Timestamp = c.Init ^ 0x5a5a5a5a
				got, ok := d.Decode(nt, &pkt)
				if !ok {
					return fail("globaldecoder/late-track/refused", "joining track (rate %d, offset %d ns): first packet refused", r2, off), wraps, p0
				}
				class, msg := placement(p0+sum, c.Rate, r2, off, got)
				if msg != "" {
					return fail("globaldecoder/late-track/multi-join", "%s", msg), wraps, p0
				}
				if jc != nil {
					jc[class]++
				}
			}
		}
	}
	return nil, wraps, p0
}

func pow10(n int) int {
	r := 1
	for i := 0; i < n; i++ {
		r *= 10
	}
	return r
}

func digits(v, n int, out []int) []int {
	out = out[:0]
	for i := 0; i < n; i++ {
		out = append(out, 0)
	}
	for i := n - 1; i >= 0; i-- {
		out[i] = v % 10
		v /= 10
	}
	return out
}

func partPTS() {
	D := 4
	if run.Thorough() {
		D = 6
	}
	type item struct {
		rate    int
		init    uint32
		bf      bool
		skip, d int
		lo, cnt int // block of sequences (as base-10 numbers of d digits)
		join    bool
	}
	var items []item
	blocks := func(r int, in uint32, bf bool, skip, d int, join bool) {
		n := pow10(d)
		blk := n
		if d > 2 {
			blk = pow10(d - 2)
		}
		for lo := 0; lo < n; lo += blk {
			items = append(items, item{r, in, bf, skip, d, lo, blk, join})
		}
	}
	for _, r := range menuRates {
		for _, in := range menuInits {
			for d := 0; d <= D; d++ {
				blocks(r, in, false, 0, d, true) // every sequence of every length 0..D, then the joins
			}
			blocks(r, in, true, 0, D, false)
			blocks(r, in, false, 1, 3, false)
			blocks(r, in, true, 2, 3, false)
		}
	}
	var wrapHist [16]atomic.Int64
	var firstNonZero atomic.Int64
	pinned(len(items), 16, func(ii int, clk *vclock) {
		it := items[ii]
		if tooMany() {
			return
		}
		c := ptsCase{Rate: it.rate, Init: it.init, BFrames: it.bf, Skip: it.skip, Join: it.join}
		g := run.Begin("globaldecoder", func() any { return c.describe() })
		defer g.End()
		n, base := it.cnt, it.lo
		var jc joinClasses
		var evals, nontriv int64
		var localWraps [16]int64
		buf := make([]int, 0, 8)
		for v := 0; v < n; v++ {
			buf = digits(base+v, it.d, buf)
			c.Steps = buf
			e, wraps, p0 := runPTS(&c, clk, &jc)
			evals++
			if p0 != 0 {
				firstNonZero.Add(1)
			}
			neg := false
			for _, s := range buf {
				if menuSteps[s] < 0 {
					neg = true
				}
			}
			if wraps > 0 || neg || it.join {
				nontriv++
				run.NontrivialHash(mix(1, uint64(it.rate), uint64(it.init), b2u(it.bf), uint64(it.skip), uint64(it.d), uint64(base+v)))
			}
			localWraps[wraps]++
			if e != nil {
				cc := c
				cc.Steps = append([]int{}, buf...)
				report("pts", cc, e, func() *oerr { e2, _, _ := runPTS(&cc, clk, nil); return e2 })
				if tooMany() {
					break
				}
			} else if v == n/3 && ii%211 == 7 {
				cc := c
				cc.Steps = append([]int{}, buf...)
				samplePart("pts", func() any {
					m := cc.describe()
					m["wraps"] = wraps
					return m
				})
			}
			if v&0xfff == 0 {
				g.Touch()
			}
		}
		run.Eval(evals)
		run.AddInt("pts_sequences", evals)
		run.AddInt("pts_sequences_nontrivial", nontriv)
		run.AddInt("pts_decode_calls", evals*int64(it.d+1+it.skip))
		if it.join {
			run.AddInt("pts_decode_calls", evals*int64(len(menuOffsets)*len(menuRates)))
			run.AddInt("multi_join_placements_within_oracle", jc[lateOK]+jc[lateBeyondSingleRounding])
			run.AddInt("multi_join_placements_unrepresentable", jc[lateUnrepresentable])
			run.AddInt("multi_join_placements_beyond_1tick_each_clock_plus_1ns", jc[lateBeyondSingleRounding])
		}
		for w, k := range localWraps {
			if k > 0 {
				wrapHist[w].Add(k)
				run.Outcome(fmt.Sprintf("pts rate=%d wraps=%d", it.rate, w))
			}
		}
	})
	h := map[string]int64{}
	for w := range wrapHist {
		if k := wrapHist[w].Load(); k > 0 {
			h[fmt.Sprint(w)] = k
		}
	}
	run.Set("pts_sequences_by_number_of_2^32_crossings", h)
	run.Set("pts_first_pts_nonzero", firstNonZero.Load())
	run.Set("rtptime_clock_reads_pts", clockCalls.Load())
}

// ---------------------------------------------------------------------------------------------

type lateCase struct {
	R1    int    `json:"lead_rate"`
	Init1 uint32 `json:"lead_init"`
	Steps []int  `json:"lead_steps"`
	R2    int    `json:"join_rate"`
	OffNs int64  `json:"offset_ns"`
	Init2 uint32 `json:"join_init"`
}

func (c *lateCase) describe() map[string]any {
	st := make([]int64, len(c.Steps))
	for i, s := range c.Steps {
		st[i] = menuSteps[s]
	}
	return map[string]any{"part": "late-track", "lead_rate": c.R1, "lead_init": c.Init1, "lead_steps": st, "join_rate": c.R2, "offset_ns": c.OffNs, "join_init": c.Init2}
}

// late outcome classes
const (
	lateOK = iota
	lateUnrepresentable
	lateBeyondSingleRounding // within the oracle, but further than 1/r1 + 1/r2 + 1ns from the exact place
)

// placement judges the first PTS of a track (rate r2) that joins offNs after the lead's (rate r1)
// packet with PTS leadPTS: exact place = leadPTS*r2/r1 + offNs*r2/1e9, allowed distance < 2 ticks of r2.
func placement(leadPTS int64, r1i, r2i int, offNs, got int64) (class int, msg string) {
	q1, r1, ok1 := floorMulDiv(leadPTS, int64(r2i), int64(r1i))
	q2, r2, ok2 := floorMulDiv(offNs, int64(r2i), 1e9)
	if !ok1 || !ok2 || q1 > math.MaxInt64-q2-4 {
		return lateUnrepresentable, ""
	}
	den := int64(r1i) * 1e9
	num := r1*1e9 + r2*int64(r1i) // exact place = q1+q2 + num/den, num/den in [0,2)
	dd := got - q1 - q2
	bad := dd < -2 || dd > 4
	if !bad {
		x := dd*den - num // (got - exact) * den
		bad = x <= -2*den || x >= 2*den
		if !bad {
			// informational: distance against one tick of each clock plus 1 ns
			dist := math.Abs(float64(x) / float64(den)) // in ticks of r2
			if dist > 1+float64(r2i)/float64(r1i)+float64(r2i)/1e9 {
				class = lateBeyondSingleRounding
			}
		}
	}
	if bad {
		return 0, fmt.Sprintf("joining track (rate %d) first PTS = %d; lead (rate %d) PTS %d and %d ns elapsed place it at %d + %d/%d ticks (allowed distance < 2 ticks)",
			r2i, got, r1i, leadPTS, offNs, q1+q2, num, den)
	}
	return class, ""
}

func runLate(c *lateCase, clk *vclock) (e *oerr, class int) {
	defer func() {
		if r := recover(); r != nil {
			e = fail("globaldecoder/panic", "panic: %v", r)
		}
	}()
	d := &rtptime.GlobalDecoder{}
	d.Initialize()
	lead := &trk{rate: c.R1, sync: true}
	var pkt rtp.Packet
	pkt.Version = 2
	clk.ns = 0
	pkt.Timestamp = c.Init1
	p0, ok := d.Decode(lead, &pkt)
	if !ok {
		return fail("globaldecoder/first-packet-refused", "lead: first packet refused"), 0
	}
	ts := c.Init1
	var sum int64
	for i, si := range c.Steps {
		st := menuSteps[si]
		ts += uint32(st)
		sum += st
		clk.ns += leadGapNs
		pkt.Timestamp = ts
		p, ok := d.Decode(lead, &pkt)
		if !ok || p-p0 != sum {
			return fail(fmt.Sprintf("globaldecoder/pts-continuation/%d", c.R1), "lead step %d: ok=%v PTS-PTS(0)=%d want %d", i+1, ok, p-p0, sum), 0
		}
	}
	leadPTS := p0 + sum

	// the second track joins OffNs after the lead's last packet
	clk.ns += c.OffNs
	second := &trk{rate: c.R2, sync: true}
	pkt.Timestamp = c.Init2
	got, ok := d.Decode(second, &pkt)
	if !ok {
		return fail("globaldecoder/late-track/refused", "joining track: first packet refused"), 0
	}
	class, msg := placement(leadPTS, c.R1, c.R2, c.OffNs, got)
	if msg != "" {
		return fail("globaldecoder/late-track", "%s", msg), 0
	}

	// the second track continues by rule 1, the lead is not disturbed
	ts2 := c.Init2
	var sum2 int64
	for i, st := range menuSteps {
		ts2 += uint32(st)
		sum2 += st
		clk.ns += leadGapNs
		pkt.Timestamp = ts2
		p, ok := d.Decode(second, &pkt)
		if !ok || p-got != sum2 {
			return fail(fmt.Sprintf("globaldecoder/late-track/continuation/%d", c.R2), "joining track step %d (%+d): ok=%v PTS-first=%d want %d", i+1, st, ok, p-got, sum2), class
		}
	}
	ts += 1500
	sum += 1500
	pkt.Timestamp = ts
	p, ok := d.Decode(lead, &pkt)
	if !ok || p-p0 != sum {
		return fail("globaldecoder/late-track/lead-disturbed", "lead after the join: ok=%v PTS-PTS(0)=%d want %d", ok, p-p0, sum), class
	}
	return nil, class
}

func partLate() {
	L := 3
	if run.Thorough() {
		L = 4
	}
	type item struct {
		r1      int
		init1   uint32
		l       int
		lo, cnt int
	}
	var items []item
	for l := 0; l <= L; l++ {
		n := pow10(l)
		blk := n
		if blk > 100 {
			blk = 100
		}
		for _, r := range menuRates {
			for _, in := range menuInits {
				for lo := 0; lo < n; lo += blk {
					items = append(items, item{r, in, l, lo, blk})
				}
			}
		}
	}
	var cls [3]atomic.Int64
	pinned(len(items), 16, func(ii int, clk *vclock) {
		it := items[ii]
		if tooMany() {
			return
		}
		c := lateCase{R1: it.r1, Init1: it.init1}
		g := run.Begin("globaldecoder/late-track", func() any { return c.describe() })
		defer g.End()
		var evals int64
		var local [3]int64
		buf := make([]int, 0, 8)
		for v := it.lo; v < it.lo+it.cnt; v++ {
			buf = digits(v, it.l, buf)
			c.Steps = buf
			for _, r2 := range menuRates {
				for _, off := range menuOffsets {
					for _, in2 := range menuInits2 {
						c.R2, c.OffNs, c.Init2 = r2, off, in2
						e, class := runLate(&c, clk)
						evals++
						local[class]++
						run.NontrivialHash(mix(2, uint64(it.r1), uint64(it.init1), uint64(it.l), uint64(v), uint64(r2), uint64(off), uint64(in2)))
						if e != nil {
							cc := c
							cc.Steps = append([]int{}, buf...)
							report("late", cc, e, func() *oerr { e2, _ := runLate(&cc, clk); return e2 })
							if tooMany() {
								return
							}
						} else if ii%97 == 11 && v == it.lo+it.cnt/2 && r2 == 90000 && off == 1e6 {
							cc := c
							cc.Steps = append([]int{}, buf...)
							samplePart("late", func() any { return cc.describe() })
						}
					}
				}
			}

			g.Touch()
		}
		run.Eval(evals)
		run.AddInt("late_cases", evals)
		for i, k := range local {
			cls[i].Add(k)
		}
		run.Outcome(fmt.Sprintf("late r1=%d classes=%v", it.r1, local[1] > 0))
	})
	run.Set("late_placed_within_oracle", cls[lateOK].Load()+cls[lateBeyondSingleRounding].Load())
	run.Set("late_unrepresentable", cls[lateUnrepresentable].Load())
	run.Set("late_beyond_1tick_each_clock_plus_1ns", cls[lateBeyondSingleRounding].Load())
}

func b2u(b bool) uint64 {
	if b {
		return 1
	}
	return 0
}

// mix hashes a tuple of integers (splitmix64 steps).
func mix(vs ...uint64) uint64 {
	h := uint64(0x9e3779b97f4a7c15)
	for _, v := range vs {
		h ^= v + 0x9e3779b97f4a7c15 + (h << 6) + (h >> 2)
		h ^= h >> 30
		h *= 0xbf58476d1ce4e5b9
		h ^= h >> 27
		h *= 0x94d049bb133111eb
		h ^= h >> 31
	}
	return h
}
