package main

import (
	"bufio"
	"fmt"
	"net"
	"sync"
	"time"

	"github.com/bluenviron/gortsplib/v5"
	"github.com/bluenviron/gortsplib/v5/pkg/base"
	"github.com/bluenviron/gortsplib/v5/pkg/conn"

	"verif/internal/sysx"
)

// Talkative peer: Client.Close while the server keeps sending RTSP messages. A scripted server answers
// OPTIONS / DESCRIBE / SETUP (interleaved) / PLAY and then sends unsolicited messages. The harness blocks
// the client's routine inside its OnResponse / OnServerRequest hook for the first of them, lets the
// server send 64 more (so that the client's reader is parked with a message in its hands and a backlog
// behind it), starts Client.Close, waits for quiescence and releases the hook. Which of its ready
// channels the client's routine takes next (shutdown or the parked message) is the Go runtime's choice
// and the one thing this scenario does not control: it is run `talkativeTrials` times per message kind.

const talkativeTrials = 8

func talkativeCases() []Case {
	var cs []Case
	for _, kind := range []string{"responses", "requests"} {
		for t := 0; t < talkativeTrials; t++ {
			cs = append(cs, Case{Scenario: "talkative-server-" + kind, K: t + 1, Who: "client", Mode: "gated"})
		}
	}
	return cs
}

const talkSDP = "v=0\r\no=- 0 0 IN IP4 127.0.0.1\r\ns=x\r\nc=IN IP4 0.0.0.0\r\nt=0 0\r\nm=video 0 RTP/AVP 96\r\na=rtpmap:96 H264/90000\r\na=fmtp:96 packetization-mode=1\r\na=control:trackID=0\r\n"

func runTalkative(c Case) (f *fail) {
	defer func() {
		if r := recover(); r != nil {
			f = &fail{c.Scenario + "/harness-panic", fmt.Sprint(r)}
		}
	}()
	env := sysx.NewEnv()
	tag := c.Scenario + "/close-client-gated"
	ln, err := env.Net.Listen("tcp", "127.0.0.1:8554")
	if err != nil {
		return &fail{"harness/listen", err.Error()}
	}
	defer ln.Close()
	var smu sync.Mutex
	var sconn net.Conn
	played := make(chan struct{})
	srvErr := make(chan error, 1)
	go func() {
		nc, err := ln.Accept()
		if err != nil {
			srvErr <- err
			return
		}
		smu.Lock()
		sconn = nc
		smu.Unlock()
		co := conn.NewConn(bufio.NewReader(nc), nc)
		for {
			what, err := co.Read()
			if err != nil {
				return
			}
			req, ok := what.(*base.Request)
			if !ok {
				continue // responses of the client to our requests, frames
			}
			res := &base.Response{StatusCode: base.StatusOK, Header: base.Header{"CSeq": req.Header["CSeq"]}}
			switch req.Method {
			case base.Options:
				res.Header["Public"] = base.HeaderValue{"DESCRIBE, SETUP, PLAY, TEARDOWN"}
			case base.Describe:
				res.Header["Content-Type"] = base.HeaderValue{"application/sdp"}
				res.Header["Content-Base"] = base.HeaderValue{"rtsp://127.0.0.1:8554/stream/"}
				res.Body = []byte(talkSDP)
			case base.Setup:
				res.Header["Transport"] = base.HeaderValue{"RTP/AVP/TCP;unicast;interleaved=0-1"}
				res.Header["Session"] = base.HeaderValue{"ABCD1234"}
			}
			smu.Lock()
			err = co.WriteResponse(res)
			smu.Unlock()
			if err != nil {
				return
			}
			if req.Method == base.Play {
				close(played)
			}
		}
	}()
	unsolicited := func(i int) []byte {
		if c.Scenario == "talkative-server-requests" {
			return []byte(fmt.Sprintf("OPTIONS rtsp://127.0.0.1:8554/stream RTSP/1.0\r\nCSeq: %d\r\n\r\n", 900+i))
		}
		return []byte(fmt.Sprintf("RTSP/1.0 200 OK\r\nCSeq: %d\r\n\r\n", 900+i))
	}
	send := func(i int) {
		smu.Lock()
		defer smu.Unlock()
		sconn.Write(unsolicited(i)) //nolint:errcheck
	}

	gate := make(chan struct{})
	entered := make(chan struct{})
	var once sync.Once
	hold := func(cseq base.HeaderValue) {
		if len(cseq) == 1 && cseq[0] == "900" {
			once.Do(func() { close(entered) })
			<-gate
		}
	}
	proto := gortsplib.ProtocolTCP
	cli := env.NewClient(func(cl *gortsplib.Client) {
		cl.Protocol = &proto
		cl.OnResponse = func(res *base.Response) { hold(res.Header["CSeq"]) }
		cl.OnServerRequest = func(req *base.Request) { hold(req.Header["CSeq"]) }
	})
	if err := cli.Start(); err != nil {
		return &fail{"harness/client-start", err.Error()}
	}
	d, _, err := cli.Describe(u)
	if err != nil {
		return &fail{"harness/describe", err.Error()}
	}
	if err := cli.SetupAll(d.BaseURL, d.Medias); err != nil {
		return &fail{"harness/setup", err.Error()}
	}
	if _, err := cli.Play(nil); err != nil {
		return &fail{"harness/play", err.Error()}
	}
	select {
	case <-played:
	case err := <-srvErr:
		return &fail{"harness/scripted-server", err.Error()}
	case <-time.After(sysx.HangLimit):
		return &fail{"harness/scripted-server", "PLAY not seen"}
	}
	sysx.Settle()
	send(0)
	select {
	case <-entered:
	case <-time.After(sysx.HangLimit):
		return &fail{"harness/" + c.Scenario + "/hook-not-entered", "the unsolicited message never reached the client's hook"}
	}
	for i := 1; i <= 64; i++ {
		send(i)
	}
	sysx.Settle() // the reader is parked with message 901 in its hands
	closerDone := make(chan struct{})
	go func() { defer close(closerDone); cli.Close() }()
	sysx.Settle()
	close(gate)
	if !pump(env, closerDone) {
		return &fail{tag + "/Client.Close-does-not-return", fmt.Sprintf("Client.Close did not return while the server kept sending %s (%+v); library goroutines: %v", c.Scenario[len("talkative-server-"):], c, sysx.LibGoroutines())}
	}
	smu.Lock()
	if sconn != nil {
		sconn.Close()
	}
	smu.Unlock()
	ln.Close()
	if left := sysx.WaitNoLibGoroutines("checks/c13"); len(left) > 0 {
		return &fail{tag + "/goroutine-left", fmt.Sprintf("%v (%+v)", left, c)}
	}
	if left := env.Net.Open(); len(left) > 0 {
		return &fail{tag + "/socket-left", fmt.Sprintf("%v (%+v)", left, c)}
	}
	return nil
}
