package main

import (
	"crypto/tls"
	"fmt"
	"net"
	"sync"
	"time"

	"github.com/bluenviron/gortsplib/v5"
	"github.com/bluenviron/gortsplib/v5/pkg/base"

	"verif/internal/sysx"
)

// Close while a connection is between the listener and the server: the network's Accept hook holds the
// connection the listener is about to return (it has left the backlog, the server has not seen it yet), the
// harness calls Server.Close, lets it get as far as it can (it waits for the listener routine), and only then
// lets Accept return. Whichever way the hand-over goes, the connection belongs to the server: after Close
// returned the peer must see it closed, nothing may be left open, and every OnConnOpen has its OnConnClose.
// The hand-over is a select between two channel operations; where both are ready Go picks at random, so
// every configuration is repeated (trial) - each trial is an independent execution with the same oracle.

const acceptTrials = 12

func acceptCases() []Case {
	var cs []Case
	for _, existing := range []int{0, 1} {
		for t := 0; t < acceptTrials; t++ {
			cs = append(cs, Case{Scenario: fmt.Sprintf("accept-during-close/existing=%d", existing), K: t, Who: "server", Mode: "gated"})
		}
	}
	return cs
}

func runAccept(c Case) (f *fail) {
	defer func() {
		if r := recover(); r != nil {
			f = &fail{c.Scenario + "/harness-panic", fmt.Sprint(r)}
		}
	}()
	env := sysx.NewEnv()
	tag := c.Scenario
	srv, _, err := env.StartServer(sysx.ServerOpts{Handlers: "all", UDP: true, Desc: sysx.DefaultDesc(1), Tweak: func(s *gortsplib.Server) {
		s.ReadTimeout = 5 * time.Second
		s.IdleTimeout = 20 * time.Second
	}})
	if err != nil {
		return &fail{"harness/server-start", err.Error()}
	}
	var first *sysx.Peer
	if c.Scenario == "accept-during-close/existing=1" {
		first, err = env.Dial(nil)
		if err != nil {
			return &fail{"harness/dial", err.Error()}
		}
		defer first.Close()
		r, err := first.Do(&base.Request{Method: base.Options, URL: sysx.MustURL("rtsp://127.0.0.1:8554/stream")})
		if err != nil || r.StatusCode != base.StatusOK {
			return &fail{"harness/options", fmt.Sprint(r, err)}
		}
	}
	held := make(chan struct{})
	release := make(chan struct{})
	env.Net.OnAccept = func(net.Conn) {
		close(held)
		<-release
	}
	peer, err := env.Dial(nil)
	if err != nil {
		return &fail{"harness/dial", err.Error()}
	}
	defer peer.Close()
	select {
	case <-held:
	case <-time.After(sysx.HangLimit):
		return &fail{"harness/" + tag + "/accept-not-reached", "the listener never took the connection"}
	}
	env.Net.OnAccept = nil
	closed := make(chan struct{})
	go func() { defer close(closed); srv.Close() }()
	sysx.Settle()
	close(release)
	if !pump(env, closed) {
		return &fail{tag + "/Server.Close-does-not-return", fmt.Sprintf("%+v; library goroutines: %v", c, sysx.LibGoroutines())}
	}
	if left := sysx.WaitNoLibGoroutines(); len(left) > 0 {
		return &fail{tag + "/goroutine-left", fmt.Sprintf("%v (%+v)", left, c)}
	}
	if !peer.DrainEOF() {
		return &fail{tag + "/socket-left", fmt.Sprintf("Server.Close returned; the connection that the listener had accepted when Close was called is still open on the server's side (the peer sees no EOF) (%+v)", c)}
	}
	if first != nil && !first.DrainEOF() {
		return &fail{tag + "/socket-left", fmt.Sprintf("Server.Close returned; the established connection is still open (%+v)", c)}
	}
	peer.Close()
	if first != nil {
		first.Close()
	}
	if left := env.Net.Open(); len(left) > 0 {
		return &fail{tag + "/socket-left", fmt.Sprintf("%v (%+v)", left, c)}
	}
	opens, closes := 0, 0
	for _, e := range env.Log.Snapshot() {
		switch e.Kind {
		case "conn-open":
			opens++
		case "conn-close":
			closes++
		}
	}
	if opens != closes {
		return &fail{tag + "/unbalanced-conn-callbacks", fmt.Sprintf("OnConnOpen %d times, OnConnClose %d times (%+v)", opens, closes, c)}
	}
	return nil
}

// Client.Close while the client's first exchange is pending against a peer that accepted the connection and
// says nothing: the TLS handshake (rtsps), the HTTP / WebSocket tunnel handshake, or the first request
// itself. The pending call is started, the library runs to quiescence (no virtual time passes), then Close
// is called: Close and the pending call must both return, nothing may be left behind.

func midHandshakeCases() []Case {
	var cs []Case
	for _, v := range []string{"plain", "tls", "http-tunnel", "ws-tunnel"} {
		cs = append(cs, Case{Scenario: "client-close-mid-handshake/" + v, K: 0, Who: "client", Mode: "gated"})
	}
	return cs
}

func runMidHandshake(c Case) (f *fail) {
	defer func() {
		if r := recover(); r != nil {
			f = &fail{c.Scenario + "/harness-panic", fmt.Sprint(r)}
		}
	}()
	env := sysx.NewEnv()
	tag := c.Scenario
	ln, err := env.Net.Listen("tcp", "127.0.0.1:8554")
	if err != nil {
		return &fail{"harness/listen", err.Error()}
	}
	var held []net.Conn
	var hmu sync.Mutex
	go func() {
		for {
			nc, err := ln.Accept()
			if err != nil {
				return
			}
			hmu.Lock()
			held = append(held, nc) // accepted, never read, never answered
			hmu.Unlock()
		}
	}()
	cleanup := func() {
		ln.Close()
		hmu.Lock()
		for _, nc := range held {
			nc.Close()
		}
		hmu.Unlock()
	}
	defer cleanup()
	variant := c.Scenario[len("client-close-mid-handshake/"):]
	cli := env.NewClient(func(cl *gortsplib.Client) {
		switch variant {
		case "tls":
			cl.Scheme = "rtsps"
			cl.TLSConfig = &tls.Config{InsecureSkipVerify: true}
		case "http-tunnel":
			cl.Tunnel = gortsplib.TunnelHTTP
		case "ws-tunnel":
			cl.Tunnel = gortsplib.TunnelWebSocket
		}
	})
	if err := cli.Start(); err != nil {
		return &fail{"harness/client-start", err.Error()}
	}
	scheme := "rtsp"
	if variant == "tls" {
		scheme = "rtsps"
	}
	pending := make(chan struct{})
	go func() {
		defer close(pending)
		cli.Describe(sysx.MustURL(scheme + "://127.0.0.1:8554/stream")) //nolint:errcheck
	}()
	sysx.Settle()
	closed := make(chan struct{})
	go func() { defer close(closed); cli.Close() }()
	if !pump(env, closed) {
		return &fail{tag + "/Client.Close-does-not-return", fmt.Sprintf("the first exchange is pending against a silent peer; Close did not return although virtual time was advanced by 150 s (%+v); library goroutines: %v", c, sysx.LibGoroutines())}
	}
	if !pump(env, pending) {
		return &fail{tag + "/pending-call-does-not-return", fmt.Sprintf("Close returned, the Describe that was pending did not (%+v)", c)}
	}
	cleanup()
	if left := sysx.WaitNoLibGoroutines(); len(left) > 0 {
		return &fail{tag + "/goroutine-left", fmt.Sprintf("%v (%+v)", left, c)}
	}
	if left := env.Net.Open(); len(left) > 0 {
		return &fail{tag + "/socket-left", fmt.Sprintf("%v (%+v)", left, c)}
	}
	return nil
}
