package main

import (
	"encoding/json"
	"fmt"
	"os"
	"os/exec"

	"verif/internal/evid"
)

type coreFail struct {
	Sig     string   `json:"sig"`
	Msg     string   `json:"msg"`
	Driver  string   `json:"driver"`
	Choices []int    `json:"choices"`
	Events  []string `json:"events"`
}

type coreOut struct {
	Executions int64          `json:"executions"`
	Points     int64          `json:"points"`
	Histories  int            `json:"distinct_histories"`
	PerDriver  map[string]any `json:"per_driver"`
	Fails      []coreFail     `json:"fails"`
	Capped     []string       `json:"capped"`
	Diverged   string         `json:"diverged"`
}

// cores runs the controlled-scheduler binary built by vcheck next to this one (VERIF_CORES).
func cores(run *evid.Run) {
	bin := os.Getenv("VERIF_CORES")
	if bin == "" {
		run.Fatal("VERIF_CORES not set: run through ./vcheck")
	}
	bound := 2
	if run.Thorough() {
		bound = 3
	}
	b, err := exec.Command(bin, "--bound", fmt.Sprint(bound)).Output()
	if err != nil {
		run.Fatal("cores binary failed: %v", err)
	}
	var o coreOut
	if err := json.Unmarshal(b, &o); err != nil {
		run.Fatal("cores output: %v", err)
	}
	if o.Diverged != "" {
		run.Fatal("nondeterminism in cores: %s", o.Diverged)
	}
	run.Eval(o.Executions)
	run.Trace(o.Executions)
	run.Transition(o.Points)
	for i := 0; i < o.Histories; i++ {
		run.State(fmt.Sprint("core-history-", i))
		run.Nontrivial(fmt.Sprint("core-history-", i))
	}
	for _, c := range o.Capped {
		run.Cap("core driver " + c + " stopped at the execution cap")
	}
	run.Set("cores", o.PerDriver)
	run.Set("cores_preemption_bound", bound)
	for _, f := range o.Fails {
		// confirm by replaying the schedule
		cj, _ := json.Marshal(f.Choices)
		ok := 0
		for i := 0; i < 3; i++ {
			rb, _ := exec.Command(bin, "--driver", f.Driver, "--choices", string(cj)).Output()
			var ro coreOut
			json.Unmarshal(rb, &ro) //nolint:errcheck
			if len(ro.Fails) == 1 && ro.Fails[0].Sig == f.Sig {
				ok++
			}
		}
		if ok != 3 {
			run.Flaky(f.Sig)
			continue
		}
		run.Violation("core/"+f.Sig, map[string]any{"core": f})
	}
}
