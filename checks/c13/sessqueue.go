package main

import (
	"fmt"
	"strings"
	"sync"
	"time"

	"github.com/bluenviron/gortsplib/v5"
	"github.com/bluenviron/gortsplib/v5/pkg/base"

	"verif/internal/sysx"
)

// Requests queued at a session while it ends. A session serves its requests one at a time; requests of
// OTHER connections that name the session wait for it. The harness holds the session inside a handler
// (GET_PARAMETER of the owner), lets one or two further connections send a request with the session's id
// (each runs until its connection's routine is parked on the hand-over), optionally starts a terminator
// (ServerSession.Close / ServerStream.Close / Server.Close) and releases the handler. Every queued
// request must be answered or its connection closed, Server.Close must return, nothing may be left.
//
// cases: first queued request x second queued request (or none) x terminator (or none).

var queueReqs = []string{"OPTIONS", "GET_PARAMETER", "TEARDOWN", "PLAY", "PAUSE"}

func sessQueueCases() []Case {
	var cs []Case
	k := 0
	for _, q1 := range queueReqs {
		for _, q2 := range append([]string{"none"}, queueReqs...) {
			for _, term := range []string{"none", "session", "stream", "server"} {
				k++
				cs = append(cs, Case{Scenario: "session-queue/" + q1 + "+" + q2, K: k, Who: term, Mode: "gated"})
			}
		}
	}
	return cs
}

func runSessQueue(c Case) (f *fail) {
	defer func() {
		if r := recover(); r != nil {
			f = &fail{"session-queue/harness-panic", fmt.Sprint(r)}
		}
	}()
	parts := strings.SplitN(strings.TrimPrefix(c.Scenario, "session-queue/"), "+", 2)
	env := sysx.NewEnv()
	tag := "session-queue/terminator-" + c.Who
	srv, app, err := env.StartServer(sysx.ServerOpts{Handlers: "all", UDP: true, Desc: sysx.DefaultDesc(1), Tweak: func(s *gortsplib.Server) {
		s.WriteTimeout = 5 * time.Second
		s.ReadTimeout = 5 * time.Second
		s.IdleTimeout = 20 * time.Second
	}})
	if err != nil {
		return &fail{"harness/server-start", err.Error()}
	}
	gate := make(chan struct{})
	entered := make(chan struct{})
	var once sync.Once
	app.Hook = func(kind, _, _ string) *base.Response {
		if kind == "getparam" {
			first := false
			once.Do(func() { first = true; close(entered) })
			if first {
				<-gate
			}
		}
		return nil
	}
	owner, err := env.Dial(nil)
	if err != nil {
		return &fail{"harness/dial", err.Error()}
	}
	defer owner.Close()
	r, err := owner.Do(&base.Request{Method: base.Setup, URL: sysx.MustURL("rtsp://127.0.0.1:8554/stream/trackID=0"), Header: base.Header{"Transport": base.HeaderValue{"RTP/AVP;unicast;client_port=35466-35467"}}})
	if err != nil || r.StatusCode != base.StatusOK {
		return &fail{"harness/setup", fmt.Sprint(r, err)}
	}
	id := r.Header["Session"][0]
	if i := strings.IndexByte(id, ';'); i > 0 {
		id = id[:i]
	}
	sess := base.HeaderValue{id}
	var ss *gortsplib.ServerSession
	for _, e := range env.Log.Snapshot() {
		if e.Kind == "session-open" {
			ss = e.Session
		}
	}
	if err := owner.Send(&base.Request{Method: base.GetParameter, URL: u, Header: base.Header{"Session": sess}}); err != nil {
		return &fail{"harness/send", err.Error()}
	}
	select {
	case <-entered:
	case <-time.After(sysx.HangLimit):
		return &fail{"harness/session-queue/handler-not-entered", "GET_PARAMETER never reached the application"}
	}
	mk := func(name string) *base.Request {
		h := base.Header{"Session": sess}
		switch name {
		case "OPTIONS":
			return &base.Request{Method: base.Options, URL: u, Header: h}
		case "GET_PARAMETER":
			return &base.Request{Method: base.GetParameter, URL: u, Header: h}
		case "TEARDOWN":
			return &base.Request{Method: base.Teardown, URL: u, Header: h}
		case "PLAY":
			return &base.Request{Method: base.Play, URL: u, Header: h}
		case "PAUSE":
			return &base.Request{Method: base.Pause, URL: u, Header: h}
		}
		panic(name)
	}
	var others []*sysx.Peer
	for _, q := range parts {
		if q == "none" {
			continue
		}
		p, err := env.Dial(nil)
		if err != nil {
			return &fail{"harness/dial", err.Error()}
		}
		others = append(others, p)
		if err := p.Send(mk(q)); err != nil {
			return &fail{"harness/send", err.Error()}
		}
		sysx.Settle() // its connection routine is parked on the hand-over to the busy session
	}
	termDone := make(chan struct{})
	go func() {
		defer close(termDone)
		switch c.Who {
		case "session":
			ss.Close()
		case "stream":
			app.Stream.Close()
		case "server":
			srv.Close()
		}
	}()
	sysx.Settle()
	close(gate)
	if !pump(env, termDone) {
		return &fail{tag + "/terminator-does-not-return", fmt.Sprintf("%+v; library goroutines: %v", c, sysx.LibGoroutines())}
	}
	// every queued request is answered, or its connection is closed
	for i, p := range others {
		done := make(chan struct{})
		var res *base.Response
		var rerr error
		go func() { defer close(done); res, rerr = p.ReadResponse() }()
		if !pump(env, done) {
			return &fail{tag + "/queued-request-neither-answered-nor-closed", fmt.Sprintf("request %d (%s) of another connection, queued while the session was busy, got no answer and its connection stays open (%+v)", i+1, parts[i], c)}
		}
		_, _ = res, rerr
		p.Close()
	}
	owner.Close()
	call := func(name string, fn func()) *fail {
		done := make(chan struct{})
		go func() { defer close(done); fn() }()
		if !pump(env, done) {
			return &fail{tag + "/" + name + "-does-not-return", fmt.Sprintf("%s did not return (%+v); library goroutines: %v", name, c, sysx.LibGoroutines())}
		}
		return nil
	}
	if ff := call("ServerStream.Close", func() { app.Stream.Close() }); ff != nil {
		return ff
	}
	if ff := call("Server.Close", func() { srv.Close() }); ff != nil {
		return ff
	}
	if left := sysx.WaitNoLibGoroutines(); len(left) > 0 {
		return &fail{tag + "/goroutine-left", fmt.Sprintf("%v (%+v)", left, c)}
	}
	if left := env.Net.Open(); len(left) > 0 {
		return &fail{tag + "/socket-left", fmt.Sprintf("%v (%+v)", left, c)}
	}
	opens, closes, sopen, sclose := 0, 0, 0, 0
	for _, e := range env.Log.Snapshot() {
		switch e.Kind {
		case "conn-open":
			opens++
		case "conn-close":
			closes++
		case "session-open":
			sopen++
		case "session-close":
			sclose++
		}
	}
	if opens != closes || sopen != sclose {
		return &fail{tag + "/notifications-unbalanced", fmt.Sprintf("connections %d opened / %d closed, sessions %d / %d (%+v)", opens, closes, sopen, sclose, c)}
	}
	return nil
}
