package main

import (
	"fmt"
	"net"
	"strings"
	"sync"
	"syscall"
	"time"

	"github.com/pion/rtp"

	"github.com/bluenviron/gortsplib/v5"
	"github.com/bluenviron/gortsplib/v5/pkg/description"
	"github.com/bluenviron/gortsplib/v5/pkg/format"

	"verif/internal/sysx"
)

// One environment fault per execution (deviation bound 1): the n-th operation of one class - a dial, the
// opening of a datagram socket, a read or a write on a control connection (the connection is reset), a
// datagram send - gets the environment's other answer. The scenario's steps run to the end whatever they
// return (every call must return), then everything is closed. Oracle as for the other cases: every Close
// returns, no goroutine and no socket is left, notifications are balanced, nothing is delivered for a
// session after its close notification. The half-done states these faults leave behind (a RECORD that
// started one media, a SETUP that opened one of two sockets, a tunnel with one half) are states like any
// other "from any state".

type faultClass struct {
	key string // op/owner
	max int    // n = 1..max
	err error
}

var faultClasses = []faultClass{
	{"dial/client", 3, syscall.ECONNREFUSED},
	{"listen-packet/client", 6, syscall.EADDRINUSE},
	{"tcp-write/client", 10, syscall.ECONNRESET},
	{"tcp-read/client", 10, syscall.ECONNRESET},
	{"tcp-write/accepted", 12, syscall.ECONNRESET},
	{"tcp-read/accepted", 12, syscall.ECONNRESET},
	{"udp-write/server", 8, syscall.ENETUNREACH},
	{"udp-write/client", 8, syscall.ENETUNREACH},
}

func faultCases() []Case {
	var cs []Case
	for _, sc := range scenarios() {
		if sc.name == "stalled-reader-tcp" {
			continue // its peer is the harness's own
		}
		for _, fc := range faultClasses {
			if strings.HasPrefix(fc.key, "udp-write") && !sc.udp {
				continue
			}
			if fc.key == "listen-packet/client" && !sc.udp {
				continue
			}
			for n := 1; n <= fc.max; n++ {
				cs = append(cs, Case{Scenario: sc.name, K: n, Who: fc.key, Mode: "fault"})
			}
		}
	}
	// Server.Start with the n-th socket refused: Start fails and leaves nothing behind
	for n := 1; n <= 4; n++ {
		cs = append(cs, Case{Scenario: "server-start", K: n, Who: "listen/server", Mode: "fault"})
	}
	return cs
}

// faultKey classifies an operation; "" = not a library endpoint of these scenarios.
func faultKey(op, tag string, local net.Addr) string {
	switch op {
	case "dial":
		if tag == "client" {
			return "dial/client"
		}
	case "tcp-read", "tcp-write":
		if tag == "client" || tag == "accepted" {
			return op + "/" + tag
		}
	case "listen-packet", "udp-write":
		port := 0
		if a, ok := local.(*net.UDPAddr); ok && a != nil {
			port = a.Port
		}
		if port >= 8000 && port <= 8010 {
			return op + "/server"
		}
		return op + "/client"
	case "listen":
		return "listen/server"
	}
	return ""
}

func runFault(c Case) (f *fail, info string) {
	defer func() {
		if r := recover(); r != nil {
			f = &fail{c.Scenario + "/fault/harness-panic", fmt.Sprint(r)}
		}
	}()
	var ferr error = syscall.ECONNRESET
	for _, fc := range faultClasses {
		if fc.key == c.Who {
			ferr = fc.err
		}
	}
	env := sysx.NewEnv()
	var mu sync.Mutex
	count, fired := 0, ""
	hook := func(op, tag string, local, remote net.Addr) error {
		k := faultKey(op, tag, local)
		if c.Who == "listen/server" && (k == "listen/server" || k == "listen-packet/server") {
			k = "listen/server"
		}
		if k != c.Who {
			return nil
		}
		mu.Lock()
		defer mu.Unlock()
		count++
		if count == c.K {
			fired = fmt.Sprintf("%s %v->%v", op, local, remote)
			return ferr
		}
		return nil
	}
	tag := fmt.Sprintf("%s/fault-%s", c.Scenario, strings.ReplaceAll(c.Who, "/", "-"))
	leftovers := func() *fail {
		if left := sysx.WaitNoLibGoroutines(); len(left) > 0 {
			return &fail{tag + "/goroutine-left", fmt.Sprintf("after every Close returned these goroutines still execute library code: %v (%+v, fault: %s)", left, c, fired)}
		}
		if left := env.Net.Open(); len(left) > 0 {
			return &fail{tag + "/socket-left", fmt.Sprintf("%v (%+v, fault: %s)", left, c, fired)}
		}
		return nil
	}
	if c.Scenario == "server-start" {
		env.Net.Fault = hook
		srv, app, err := env.StartServer(sysx.ServerOpts{Handlers: "all", UDP: true, Desc: sysx.DefaultDesc(1)})
		env.Net.Fault = nil
		if err == nil {
			if fired != "" {
				f = &fail{tag + "/start-succeeds-without-a-socket", fmt.Sprintf("Server.Start returned nil although %s was refused", fired)}
			}
			app.Stream.Close()
			srv.Close()
			if f != nil {
				return f, fired
			}
		}
		return leftovers(), fired
	}
	var sc scenario
	for _, s := range scenarios() {
		if s.name == c.Scenario {
			sc = s
		}
	}
	w := &world{env: env, protoUDP: sc.udp, variant: sc.variant}
	srv, app, err := env.StartServer(sysx.ServerOpts{Handlers: "all", UDP: true, Desc: sysx.DefaultDesc(1), Tweak: func(s *gortsplib.Server) {
		s.WriteQueueSize = 8
		s.WriteTimeout = 5 * time.Second
		s.ReadTimeout = 5 * time.Second
		s.IdleTimeout = 20 * time.Second
		if sc.variant == "tls" {
			s.TLSConfig = serverTLSConfig()
		}
	}})
	if err != nil {
		return &fail{"harness/server-start", err.Error()}, ""
	}
	w.srv, w.app = srv, app
	closeAll := func() {
		if w.cli != nil {
			w.cli.Close()
			w.cliDone.Store(true)
		}
		if w.cli2 != nil {
			w.cli2.Close()
		}
		app.Stream.Close()
		srv.Close()
	}
	defer func() {
		if f == nil {
			return
		}
		done := make(chan struct{})
		go func() { defer close(done); closeAll() }()
		pump(env, done)
	}()
	app.OnRTP = func(ss *gortsplib.ServerSession, _ *description.Media, _ format.Format, _ *rtp.Packet) {
		env.Log.Add(sysx.Event{Kind: "rtp", Session: ss})
	}
	call := func(name string, fn func()) *fail {
		done := make(chan struct{})
		go func() { defer close(done); fn() }()
		if !pump(env, done) {
			return &fail{tag + "/" + name + "-does-not-return", fmt.Sprintf("%s did not return although virtual time was advanced by 150 s and everything is quiescent (%+v, fault: %s); library goroutines: %v", name, c, fired, sysx.LibGoroutines())}
		}
		return nil
	}
	env.Net.Fault = hook
	for _, st := range sc.steps {
		var serr error
		if ff := call("step-"+st.name, func() { serr = st.f(w) }); ff != nil {
			return ff, fired
		}
		if st.name == "client-start" && serr != nil {
			break
		}
	}
	// the fault has had its chance during the scenario; the shutdown runs on a healthy environment
	env.Net.Fault = nil
	if ff := call("Client.Close", func() {
		if w.cli != nil {
			w.cli.Close()
			w.cliDone.Store(true)
		}
		if w.cli2 != nil {
			w.cli2.Close()
		}
	}); ff != nil {
		return ff, fired
	}
	// the peer is gone: whatever the fault left half-done, the server's own timeouts (20 s idle, 5 s read, 1 s
	// check period) must end every connection and session without Server.Close having to do it
	for i := 0; i < 60; i++ {
		env.Advance(time.Second)
	}
	sysx.Settle()
	open := map[any]string{}
	for _, e := range env.Log.Snapshot() {
		switch e.Kind {
		case "conn-open":
			open[e.Conn] = "connection"
		case "conn-close":
			delete(open, e.Conn)
		case "session-open":
			open[e.Session] = "session in state " + e.Session.State().String()
		case "session-close":
			delete(open, e.Session)
		}
	}
	for _, what := range open {
		kind := strings.SplitN(what, " ", 2)[0]
		return &fail{tag + "/" + kind + "-outlives-its-peer", fmt.Sprintf("the client was closed and 60 s of virtual time have passed (IdleTimeout 20 s, ReadTimeout 5 s): the server still has a %s; only Server.Close would end it (%+v, fault: %s)", what, c, fired)}, fired
	}
	if ff := call("ServerStream.Close", func() { app.Stream.Close() }); ff != nil {
		return ff, fired
	}
	if ff := call("Server.Close", func() { srv.Close() }); ff != nil {
		return ff, fired
	}
	if ff := leftovers(); ff != nil {
		return ff, fired
	}
	if ff := balanced(env, tag, c); ff != nil {
		return ff, fired
	}
	if w.lateCB.Load() > 0 {
		return &fail{tag + "/client-callback-after-close", fmt.Sprintf("%d packet callbacks after Client.Close returned (%+v, fault: %s)", w.lateCB.Load(), c, fired)}, fired
	}
	return nil, fired
}
