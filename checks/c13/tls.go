package main

import (
	"crypto/ecdsa"
	"crypto/elliptic"
	"crypto/rand"
	"crypto/tls"
	"crypto/x509"
	"crypto/x509/pkix"
	"math/big"
	"sync"
	"time"
)

var (
	tlsOnce sync.Once
	tlsCert tls.Certificate
)

// serverTLSConfig returns a configuration with a self-signed certificate generated once per process.
func serverTLSConfig() *tls.Config {
	tlsOnce.Do(func() {
		key, err := ecdsa.GenerateKey(elliptic.P256(), rand.Reader)
		if err != nil {
			panic(err)
		}
		tpl := &x509.Certificate{
			SerialNumber: big.NewInt(1),
			Subject:      pkix.Name{CommonName: "127.0.0.1"},
			NotBefore:    time.Now().Add(-time.Hour),
			NotAfter:     time.Now().Add(24 * time.Hour),
			KeyUsage:     x509.KeyUsageDigitalSignature,
			ExtKeyUsage:  []x509.ExtKeyUsage{x509.ExtKeyUsageServerAuth},
		}
		der, err := x509.CreateCertificate(rand.Reader, tpl, tpl, &key.PublicKey, key)
		if err != nil {
			panic(err)
		}
		tlsCert = tls.Certificate{Certificate: [][]byte{der}, PrivateKey: key}
	})
	return &tls.Config{Certificates: []tls.Certificate{tlsCert}, MinVersion: tls.VersionTLS12}
}
