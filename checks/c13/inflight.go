package main

import (
	"fmt"
	"net"
	"strings"
	"sync"
	"time"

	"github.com/pion/rtp"

	"github.com/bluenviron/gortsplib/v5"
	"github.com/bluenviron/gortsplib/v5/pkg/base"
	"github.com/bluenviron/gortsplib/v5/pkg/description"
	"github.com/bluenviron/gortsplib/v5/pkg/format"

	"verif/internal/sysx"
)

// In-flight dispatch scenarios: the harness owns the packet handler, so it can hold a packet callback
// open (a gate), start a Close / TEARDOWN while the library is in the middle of dispatching, let the
// library get as far as it can (Settle) and only then release the handler. This makes "Close concurrent
// with a packet callback" a deterministic situation instead of a lucky interleaving. Oracle as in
// runCase: everything returns, nothing is delivered for the session after OnSessionClose (the remaining
// packets of the same dispatch included), nothing to the client after Client.Close returned.

func inflightCases() []Case {
	var cs []Case
	for _, who := range []string{"teardown", "server", "conn-drop"} {
		cs = append(cs, Case{Scenario: "inflight-record-udp", K: 0, Who: who, Mode: "gated"})
		cs = append(cs, Case{Scenario: "inflight-record-tcp", K: 0, Who: who, Mode: "gated"})
	}
	for _, proto := range []string{"udp", "tcp"} {
		for _, who := range []string{"client", "server", "stream"} {
			cs = append(cs, Case{Scenario: "inflight-play-" + proto, K: 0, Who: who, Mode: "gated"})
		}
	}
	cs = append(cs, talkativeCases()...)
	cs = append(cs, acceptCases()...)
	cs = append(cs, midHandshakeCases()...)
	return append(cs, sessQueueCases()...)
}

func runInflight(c Case) (f *fail) {
	if strings.HasPrefix(c.Scenario, "talkative-server") {
		return runTalkative(c)
	}
	if strings.HasPrefix(c.Scenario, "client-close-mid-handshake/") {
		return runMidHandshake(c)
	}
	if strings.HasPrefix(c.Scenario, "accept-during-close/") {
		return runAccept(c)
	}
	if strings.HasPrefix(c.Scenario, "session-queue/") {
		return runSessQueue(c)
	}
	defer func() {
		if r := recover(); r != nil {
			f = &fail{c.Scenario + "/harness-panic", fmt.Sprint(r)}
		}
	}()
	env := sysx.NewEnv()
	tag := fmt.Sprintf("%s/close-%s-gated", c.Scenario, c.Who)
	srv, app, err := env.StartServer(sysx.ServerOpts{Handlers: "all", UDP: true, Desc: sysx.DefaultDesc(1), Tweak: func(s *gortsplib.Server) {
		s.WriteTimeout = 5 * time.Second
		s.ReadTimeout = 5 * time.Second
		s.IdleTimeout = 20 * time.Second
	}})
	if err != nil {
		return &fail{"harness/server-start", err.Error()}
	}
	call := func(name string, fn func()) *fail {
		done := make(chan struct{})
		go func() { defer close(done); fn() }()
		if !pump(env, done) {
			return &fail{tag + "/" + name + "-does-not-return", fmt.Sprintf("%s did not return (%+v); library goroutines: %v", name, c, sysx.LibGoroutines())}
		}
		return nil
	}
	gate := make(chan struct{})
	entered := make(chan struct{})
	var once sync.Once
	var cliClosed bool
	var mu sync.Mutex
	lateClient := 0
	udp := strings.HasSuffix(c.Scenario, "udp")

	if strings.HasPrefix(c.Scenario, "inflight-record") {
		// a raw publisher; the application's packet handler blocks on sequence number 101
		app.OnRTP = func(ss *gortsplib.ServerSession, _ *description.Media, _ format.Format, p *rtp.Packet) {
			env.Log.Add(sysx.Event{Kind: "rtp", Session: ss, Info: fmt.Sprint(p.SequenceNumber)})
			if p.SequenceNumber == 101 {
				once.Do(func() { close(entered) })
				<-gate
			}
		}
		peer, err := env.Dial(nil)
		if err != nil {
			return &fail{"harness/dial", err.Error()}
		}
		defer peer.Close()
		sdp := "v=0\r\no=- 0 0 IN IP4 127.0.0.1\r\ns=x\r\nc=IN IP4 0.0.0.0\r\nt=0 0\r\nm=video 0 RTP/AVP 96\r\na=rtpmap:96 H264/90000\r\na=fmtp:96 packetization-mode=1\r\na=control:trackID=0\r\n"
		u := sysx.MustURL("rtsp://127.0.0.1:8554/stream")
		r, err := peer.Do(&base.Request{Method: base.Announce, URL: u, Header: base.Header{"Content-Type": base.HeaderValue{"application/sdp"}}, Body: []byte(sdp)})
		if err != nil || r.StatusCode != base.StatusOK {
			return &fail{"harness/announce", fmt.Sprint(r, err)}
		}
		th := "RTP/AVP/TCP;unicast;interleaved=0-1;mode=record"
		if udp {
			th = "RTP/AVP;unicast;client_port=35466-35467;mode=record"
		}
		r, err = peer.Do(&base.Request{Method: base.Setup, URL: sysx.MustURL("rtsp://127.0.0.1:8554/stream/trackID=0"), Header: base.Header{"Transport": base.HeaderValue{th}}})
		if err != nil || r.StatusCode != base.StatusOK {
			return &fail{"harness/setup", fmt.Sprint(r, err)}
		}
		id := r.Header["Session"][0]
		if i := strings.IndexByte(id, ';'); i > 0 {
			id = id[:i]
		}
		sess := base.HeaderValue{id}
		r, err = peer.Do(&base.Request{Method: base.Record, URL: u, Header: base.Header{"Session": sess}})
		if err != nil || r.StatusCode != base.StatusOK {
			return &fail{"harness/record", fmt.Sprint(r, err)}
		}
		var sock net.PacketConn
		if udp {
			sock, _ = env.Net.ListenPacket("udp", "127.0.0.1:35466")
			defer sock.Close()
		}
		send := func(seq uint16) {
			b, _ := pkt(seq).Marshal()
			if udp {
				sock.WriteTo(b, &net.UDPAddr{IP: net.IPv4(127, 0, 0, 1), Port: 8000}) //nolint:errcheck
			} else {
				fr := base.InterleavedFrame{Channel: 0, Payload: b}
				buf, _ := fr.Marshal()
				peer.SendRaw(buf) //nolint:errcheck
			}
		}
		// 100, then 102 before 101: over UDP the reorder buffer hands 101 and 102 to the application in ONE dispatch
		send(100)
		send(102)
		send(101)
		select {
		case <-entered:
		case <-time.After(sysx.HangLimit):
			return &fail{"harness/" + c.Scenario + "/handler-not-entered", "packet 101 never reached the application"}
		}
		closerDone := make(chan struct{})
		go func() {
			defer close(closerDone)
			switch c.Who {
			case "teardown":
				peer.Do(&base.Request{Method: base.Teardown, URL: u, Header: base.Header{"Session": sess}}) //nolint:errcheck
			case "server":
				srv.Close()
			case "conn-drop":
				peer.Close()
			}
		}()
		sysx.Settle()
		if c.Who == "conn-drop" {
			env.Advance(30 * time.Second) // past ReadTimeout: a UDP record session ends by timeout
		}
		sysx.Settle()
		close(gate)
		if !pump(env, closerDone) {
			return &fail{tag + "/closer-does-not-return", fmt.Sprintf("%+v; library goroutines: %v", c, sysx.LibGoroutines())}
		}
		// the harness's own endpoints
		peer.Close()
		if sock != nil {
			sock.Close()
		}
	} else {
		// a library client reading; its packet handler blocks on the first packet
		proto := gortsplib.ProtocolTCP
		if udp {
			proto = gortsplib.ProtocolUDP
		}
		cli := env.NewClient(func(cl *gortsplib.Client) { cl.Protocol = &proto })
		if err := cli.Start(); err != nil {
			return &fail{"harness/client-start", err.Error()}
		}
		d, _, err := cli.Describe(u)
		if err != nil {
			return &fail{"harness/describe", err.Error()}
		}
		if err := cli.SetupAll(d.BaseURL, d.Medias); err != nil {
			return &fail{"harness/setup", err.Error()}
		}
		n := 0
		cli.OnPacketRTPAny(func(*description.Media, format.Format, *rtp.Packet) {
			mu.Lock()
			if cliClosed {
				lateClient++
			}
			n++
			first := n == 1
			mu.Unlock()
			if first {
				close(entered)
				<-gate
			}
		})
		if _, err := cli.Play(nil); err != nil {
			return &fail{"harness/play", err.Error()}
		}
		for i := 0; i < 3; i++ {
			app.Stream.WritePacketRTP(app.Stream.Desc.Medias[0], pkt(uint16(200+i))) //nolint:errcheck
		}
		select {
		case <-entered:
		case <-time.After(sysx.HangLimit):
			return &fail{"harness/" + c.Scenario + "/handler-not-entered", "first packet never reached the client application"}
		}
		closerDone := make(chan struct{})
		go func() {
			defer close(closerDone)
			switch c.Who {
			case "client":
				cli.Close()
				mu.Lock()
				cliClosed = true
				mu.Unlock()
			case "server":
				srv.Close()
			case "stream":
				app.Stream.Close()
			}
		}()
		sysx.Settle()
		close(gate)
		if !pump(env, closerDone) {
			return &fail{tag + "/closer-does-not-return", fmt.Sprintf("%+v; library goroutines: %v", c, sysx.LibGoroutines())}
		}
		if ff := call("Client.Close", func() {
			cli.Close()
			mu.Lock()
			cliClosed = true
			mu.Unlock()
		}); ff != nil {
			return ff
		}
	}
	if ff := call("ServerStream.Close", func() { app.Stream.Close() }); ff != nil {
		return ff
	}
	if ff := call("Server.Close", func() { srv.Close() }); ff != nil {
		return ff
	}
	if left := sysx.WaitNoLibGoroutines(); len(left) > 0 {
		return &fail{tag + "/goroutine-left", fmt.Sprintf("%v (%+v)", left, c)}
	}
	if left := env.Net.Open(); len(left) > 0 {
		return &fail{tag + "/socket-left", fmt.Sprintf("%v (%+v)", left, c)}
	}
	closed := map[*gortsplib.ServerSession]bool{}
	opens, closes := 0, 0
	for _, e := range env.Log.Snapshot() {
		switch e.Kind {
		case "session-open":
			opens++
		case "session-close":
			closes++
			closed[e.Session] = true
		case "rtp", "setup", "play", "record", "pause", "announce", "packets-lost", "decode-error":
			if e.Session != nil && closed[e.Session] {
				return &fail{tag + "/callback-after-session-close/" + e.Kind, fmt.Sprintf("callback %s (%s) for a session after its OnSessionClose, while a packet callback of the same session was being held open during the close (%+v)", e.Kind, e.Info, c)}
			}
		}
	}
	if opens != closes {
		return &fail{tag + "/session-notifications-unbalanced", fmt.Sprintf("%d opens, %d closes (%+v)", opens, closes, c)}
	}
	mu.Lock()
	defer mu.Unlock()
	if lateClient > 0 {
		return &fail{tag + "/client-callback-after-close", fmt.Sprintf("%d packet callbacks after Client.Close returned (%+v)", lateClient, c)}
	}
	return nil
}
