// C13 — Close is complete; lifecycle callbacks are balanced and ordered.
//
// Whole-system part: real Server, ServerStream and Client on the in-memory network under virtual
// (discrete-event) time. Each scenario is a list of protocol steps; for EVERY step index k, every
// closer {Server.Close, ServerStream.Close, Client.Close} and both orders (after step k-1 has
// completed / concurrently with step k) the closer is invoked, then the remaining objects are closed.
// Oracle: every Close and every API call returns once virtual time has been advanced past every
// timeout (hang detector only on wall-clock), afterwards no goroutine executes library code, the
// network registry is empty, connection/session open and close notifications pair up exactly, and
// nothing is delivered for a session after its close notification (nor to a client after its Close
// returned). Lifecycle cores under the controlled scheduler are in cores.go.
package main

import (
	"crypto/tls"
	"encoding/json"
	"fmt"
	"os"
	"runtime"
	"strings"
	"sync"
	"sync/atomic"
	"time"

	"github.com/pion/rtp"

	"github.com/bluenviron/gortsplib/v5"
	"github.com/bluenviron/gortsplib/v5/pkg/base"
	"github.com/bluenviron/gortsplib/v5/pkg/description"
	"github.com/bluenviron/gortsplib/v5/pkg/format"
	"github.com/bluenviron/gortsplib/v5/pkg/headers"

	"verif/internal/evid"
	"verif/internal/sysx"
)

// Case is one execution.
type Case struct {
	Scenario string `json:"scenario"`
	K        int    `json:"close_before_step"`
	Who      string `json:"closer"` // server stream client
	Mode     string `json:"mode"`   // after concurrent
}

type fail struct {
	Sig string `json:"sig"`
	Msg string `json:"msg"`
}

type world struct {
	env      *sysx.Env
	srv      *gortsplib.Server
	app      *sysx.App
	cli      *gortsplib.Client
	cli2     *gortsplib.Client
	peer     *sysx.Peer
	desc     *description.Session
	medias   []*description.Media
	baseURL  *base.URL
	seq      uint16
	recvd    atomic.Int64
	recvd2   atomic.Int64
	cliDone  atomic.Bool // Client.Close returned
	lateCB   atomic.Int64
	mu       sync.Mutex
	postLog  []string
	protoUDP bool
	variant  string
}

type step struct {
	name string
	f    func(w *world) error
}

func (w *world) newClient(second bool) *gortsplib.Client {
	proto := gortsplib.ProtocolTCP
	if w.protoUDP {
		proto = gortsplib.ProtocolUDP
	}
	c := w.env.NewClient(func(c *gortsplib.Client) {
		c.Protocol = &proto
		c.WriteQueueSize = 8
		switch w.variant {
		case "ws":
			c.Tunnel = gortsplib.TunnelWebSocket
		case "tls":
			c.Scheme = "rtsps"
			c.TLSConfig = &tls.Config{InsecureSkipVerify: true}
		}
	})
	return c
}

func pkt(seq uint16) *rtp.Packet {
	return &rtp.Packet{Header: rtp.Header{Version: 2, PayloadType: 96, SequenceNumber: seq, Timestamp: uint32(seq) * 3000, SSRC: 0x11}, Payload: []byte{1, 2, 3, byte(seq)}}
}

var u = sysx.MustURL("rtsp://127.0.0.1:8554/stream")

func (w *world) url() *base.URL {
	if w.variant == "tls" {
		return sysx.MustURL("rtsps://127.0.0.1:8554/stream")
	}
	return u
}

func playSteps() []step {
	return []step{
		{"client-start", func(w *world) error { w.cli = w.newClient(false); return w.cli.Start() }},
		{"describe", func(w *world) error {
			d, _, err := w.cli.Describe(w.url())
			if err == nil {
				w.desc, w.baseURL, w.medias = d, d.BaseURL, d.Medias
			}
			return err
		}},
		{"setup", func(w *world) error {
			if w.desc == nil {
				return fmt.Errorf("no description")
			}
			return w.cli.SetupAll(w.baseURL, w.medias)
		}},
		{"play", func(w *world) error {
			w.cli.OnPacketRTPAny(func(*description.Media, format.Format, *rtp.Packet) {
				if w.cliDone.Load() {
					w.lateCB.Add(1)
				}
				w.recvd.Add(1)
			})
			_, err := w.cli.Play(nil)
			return err
		}},
		{"write-1", func(w *world) error { return w.streamWrite(1) }},
		{"write-2", func(w *world) error { return w.streamWrite(1) }},
		{"pause", func(w *world) error { _, err := w.cli.Pause(); return err }},
		{"play-again", func(w *world) error { _, err := w.cli.Play(nil); return err }},
		{"write-3", func(w *world) error { return w.streamWrite(1) }},
	}
}

func (w *world) streamWrite(n int) error {
	st := w.app.Stream
	if st == nil || w.desc == nil {
		return fmt.Errorf("no stream")
	}
	var err error
	for i := 0; i < n; i++ {
		w.seq++
		if e := st.WritePacketRTP(st.Desc.Medias[0], pkt(w.seq)); e != nil {
			err = e
		}
	}
	return err
}

func recordSteps() []step {
	return []step{
		{"client-start", func(w *world) error { w.cli = w.newClient(false); return w.cli.Start() }},
		{"announce", func(w *world) error {
			w.desc = sysx.DefaultDesc(1)
			if w.variant == "tls" {
				for _, m := range w.desc.Medias {
					m.Profile = headers.TransportProfileSAVP
				}
			}
			_, err := w.cli.Announce(w.url(), w.desc)
			return err
		}},
		{"setup", func(w *world) error { return w.cli.SetupAll(w.url(), w.desc.Medias) }},
		{"record", func(w *world) error { _, err := w.cli.Record(); return err }},
		{"client-write-1", func(w *world) error { w.seq++; return w.cli.WritePacketRTP(w.desc.Medias[0], pkt(w.seq)) }},
		{"client-write-2", func(w *world) error { w.seq++; return w.cli.WritePacketRTP(w.desc.Medias[0], pkt(w.seq)) }},
		{"pause", func(w *world) error { _, err := w.cli.Pause(); return err }},
		{"record-again", func(w *world) error { _, err := w.cli.Record(); return err }},
		{"client-write-3", func(w *world) error { w.seq++; return w.cli.WritePacketRTP(w.desc.Medias[0], pkt(w.seq)) }},
	}
}

// two readers: the second joins while the first plays and packets are written
func twoReaderSteps() []step {
	s := playSteps()[:5]
	s = append(s,
		step{"reader2-start", func(w *world) error { w.cli2 = w.newClient(true); return w.cli2.Start() }},
		step{"reader2-join", func(w *world) error {
			d, _, err := w.cli2.Describe(u)
			if err != nil {
				return err
			}
			if err = w.cli2.SetupAll(d.BaseURL, d.Medias); err != nil {
				return err
			}
			w.cli2.OnPacketRTPAny(func(*description.Media, format.Format, *rtp.Packet) { w.recvd2.Add(1) })
			_, err = w.cli2.Play(nil)
			return err
		}},
		step{"write-both", func(w *world) error { return w.streamWrite(2) }},
		step{"reader1-teardown", func(w *world) error { w.cli.Close(); w.cliDone.Store(true); return nil }},
		step{"write-after", func(w *world) error { return w.streamWrite(1) }},
	)
	return s
}

// a raw reader that stops reading: the server's writer stalls on a full connection, the queue fills
func stalledSteps() []step {
	return []step{
		{"peer-connect", func(w *world) error {
			w.env.Net.RecvBuf = 2048
			p, err := w.env.Dial(nil)
			w.peer = p
			return err
		}},
		{"peer-setup", func(w *world) error {
			r, err := w.peer.Do(&base.Request{Method: base.Setup, URL: sysx.MustURL("rtsp://127.0.0.1:8554/stream/trackID=0"), Header: base.Header{"Transport": base.HeaderValue{"RTP/AVP/TCP;unicast;interleaved=0-1"}}})
			if err != nil {
				return err
			}
			if r.StatusCode != base.StatusOK {
				return fmt.Errorf("setup %d", r.StatusCode)
			}
			w.peer.CSeq = 10
			id := r.Header["Session"][0]
			if i := strings.IndexByte(id, ';'); i > 0 {
				id = id[:i]
			}
			w.postLog = append(w.postLog, id)
			return nil
		}},
		{"peer-play", func(w *world) error {
			r, err := w.peer.Do(&base.Request{Method: base.Play, URL: u, Header: base.Header{"Session": base.HeaderValue{w.postLog[0]}}})
			if err != nil {
				return err
			}
			if r.StatusCode != base.StatusOK {
				return fmt.Errorf("play %d", r.StatusCode)
			}
			return nil
		}},
		// from here on the peer never reads again
		{"flood-1", func(w *world) error { return w.flood(40) }},
		{"flood-2", func(w *world) error { return w.flood(40) }},
	}
}

func (w *world) flood(n int) error {
	st := w.app.Stream
	var err error
	for i := 0; i < n; i++ {
		w.seq++
		p := pkt(w.seq)
		p.Payload = make([]byte, 1000)
		if e := st.WritePacketRTP(st.Desc.Medias[0], p); e != nil {
			err = e
		}
	}
	return err
}

type scenario struct {
	name    string
	udp     bool
	steps   []step
	closers []string
	variant string // "" | ws (WebSocket tunnel) | tls (rtsps, SRTP)
}

func scenarios() []scenario {
	return []scenario{
		{"play-tcp", false, playSteps(), []string{"server", "stream", "client"}, ""},
		{"play-udp", true, playSteps(), []string{"server", "stream", "client"}, ""},
		{"record-tcp", false, recordSteps(), []string{"server", "client"}, ""},
		{"record-udp", true, recordSteps(), []string{"server", "client"}, ""},
		{"two-readers-tcp", false, twoReaderSteps(), []string{"server", "stream", "client"}, ""},
		{"stalled-reader-tcp", false, stalledSteps(), []string{"server", "stream"}, ""},
		// further carriers of the control connection: WebSocket tunnel, TLS (+SRTP, media over TCP and UDP)
		{"play-ws-tunnel", false, playSteps(), []string{"server", "stream", "client"}, "ws"},
		{"record-ws-tunnel", false, recordSteps(), []string{"server", "client"}, "ws"},
		{"play-tcp-tls", false, playSteps(), []string{"server", "stream", "client"}, "tls"},
		{"play-udp-tls", true, playSteps(), []string{"server", "stream", "client"}, "tls"},
		{"record-tcp-tls", false, recordSteps(), []string{"server", "client"}, "tls"},
	}
}

// pump advances virtual time (1 s at a time, at quiescence) until done is closed; it returns false when
// the call is still pending after 150 virtual seconds and the wall-clock hang detector.
func pump(env *sysx.Env, done chan struct{}) bool {
	for i := 0; i < 150; i++ {
		select {
		case <-done:
			return true
		default:
		}
		sysx.Settle()
		select {
		case <-done:
			return true
		default:
		}
		env.Advance(time.Second)
	}
	select {
	case <-done:
		return true
	case <-time.After(sysx.HangLimit):
		return false
	}
}

func runCase(c Case) (f *fail) {
	if c.Mode == "gated" {
		return runInflight(c)
	}
	defer func() {
		if r := recover(); r != nil {
			f = &fail{c.Scenario + "/harness-panic", fmt.Sprint(r)}
		}
	}()
	var sc scenario
	for _, s := range scenarios() {
		if s.name == c.Scenario {
			sc = s
		}
	}
	env := sysx.NewEnv()
	w := &world{env: env, protoUDP: sc.udp, variant: sc.variant}
	srv, app, err := env.StartServer(sysx.ServerOpts{Handlers: "all", UDP: true, Desc: sysx.DefaultDesc(1), Tweak: func(s *gortsplib.Server) {
		s.WriteQueueSize = 8
		s.WriteTimeout = 5 * time.Second
		s.ReadTimeout = 5 * time.Second
		s.IdleTimeout = 20 * time.Second
		if sc.variant == "tls" {
			s.TLSConfig = serverTLSConfig()
		}
	}})
	if err != nil {
		return &fail{"harness/server-start", err.Error()}
	}
	w.srv, w.app = srv, app
	// whatever path this execution takes out of the function: nothing of this world may stay behind and be
	// mistaken for a leak of the next one (a second Close of anything is harmless)
	defer func() {
		if f == nil {
			return
		}
		done := make(chan struct{})
		go func() {
			defer close(done)
			if w.cli != nil {
				w.cli.Close()
			}
			if w.cli2 != nil {
				w.cli2.Close()
			}
			if w.peer != nil {
				w.peer.Close()
			}
			app.Stream.Close()
			srv.Close()
		}()
		pump(env, done)
	}()
	app.OnRTP = func(ss *gortsplib.ServerSession, _ *description.Media, _ format.Format, _ *rtp.Packet) {
		env.Log.Add(sysx.Event{Kind: "rtp", Session: ss})
	}
	tag := fmt.Sprintf("%s/close-%s-%s", c.Scenario, c.Who, c.Mode)
	call := func(name string, fn func()) *fail {
		done := make(chan struct{})
		go func() { defer close(done); fn() }()
		if !pump(env, done) {
			return &fail{tag + "/" + name + "-does-not-return", fmt.Sprintf("%s did not return although virtual time was advanced by 150 s and everything is quiescent (%+v); library goroutines: %v", name, c, sysx.LibGoroutines())}
		}
		return nil
	}
	closer := func() {
		switch c.Who {
		case "server":
			srv.Close()
		case "stream":
			app.Stream.Close()
		case "client":
			if w.cli != nil {
				w.cli.Close()
				w.cliDone.Store(true)
			}
		}
	}
	// prefix: must succeed (control)
	for i := 0; i < c.K && i < len(sc.steps); i++ {
		var serr error
		st := sc.steps[i]
		if ff := call("step-"+st.name, func() { serr = st.f(w) }); ff != nil {
			return ff
		}
		if serr != nil {
			var evs []string
			for _, e := range env.Log.Snapshot() {
				if e.Kind != "request" && e.Kind != "response" && e.Kind != "rtp" {
					evs = append(evs, fmt.Sprint(e.Kind, ":", e.Info, ":", e.Err))
				}
			}
			return &fail{"harness/" + c.Scenario + "/prefix-step-failed", fmt.Sprintf("step %s failed without any Close: %v (%+v); server callbacks: %v", st.name, serr, c, evs)}
		}
	}
	switch c.Mode {
	case "after":
		if ff := call("Close("+c.Who+")", closer); ff != nil {
			return ff
		}
		if c.K < len(sc.steps) {
			st := sc.steps[c.K]
			if ff := call("step-"+st.name+"-after-close", func() { st.f(w) }); ff != nil { //nolint:errcheck
				return ff
			}
		}
	case "concurrent":
		var wg sync.WaitGroup
		if c.K < len(sc.steps) {
			st := sc.steps[c.K]
			wg.Add(1)
			go func() { defer wg.Done(); st.f(w) }() //nolint:errcheck
		}
		wg.Add(1)
		go func() { defer wg.Done(); closer() }()
		if ff := call("Close("+c.Who+")-racing-"+stepName(sc, c.K), wg.Wait); ff != nil {
			return ff
		}
	}
	// close everything that is still open
	if ff := call("Client.Close", func() {
		if w.cli != nil {
			w.cli.Close()
			w.cliDone.Store(true)
		}
		if w.cli2 != nil {
			w.cli2.Close()
		}
		if w.peer != nil {
			w.peer.Close()
		}
	}); ff != nil {
		return ff
	}
	if ff := call("ServerStream.Close", func() { app.Stream.Close() }); ff != nil {
		return ff
	}
	if ff := call("Server.Close", func() { srv.Close() }); ff != nil {
		return ff
	}
	// ---- oracle
	if left := sysx.WaitNoLibGoroutines(); len(left) > 0 {
		if f := os.Getenv("C13_STACKS"); f != "" {
			buf := make([]byte, 1<<20)
			os.WriteFile(f, buf[:runtime.Stack(buf, true)], 0o644) //nolint:errcheck
		}
		return &fail{tag + "/goroutine-left", fmt.Sprintf("after every Close returned these goroutines still execute library code: %v (%+v)", left, c)}
	}
	if left := env.Net.Open(); len(left) > 0 {
		return &fail{tag + "/socket-left", fmt.Sprintf("%v (%+v)", left, c)}
	}
	if ff := balanced(env, tag, c); ff != nil {
		return ff
	}
	if w.lateCB.Load() > 0 {
		return &fail{tag + "/client-callback-after-close", fmt.Sprintf("%d packet callbacks after Client.Close returned (%+v)", w.lateCB.Load(), c)}
	}
	return nil
}

// balanced: every open notification has exactly one close notification, nothing for a session after its close.
func balanced(env *sysx.Env, tag string, c Case) *fail {
	connOpen := map[*gortsplib.ServerConn]int{}
	connClose := map[*gortsplib.ServerConn]int{}
	sessOpen := map[*gortsplib.ServerSession]int{}
	sessClose := map[*gortsplib.ServerSession]int{}
	for _, e := range env.Log.Snapshot() {
		switch e.Kind {
		case "conn-open":
			connOpen[e.Conn]++
		case "conn-close":
			connClose[e.Conn]++
		case "session-open":
			sessOpen[e.Session]++
		case "session-close":
			sessClose[e.Session]++
		case "setup", "play", "record", "pause", "announce", "getparam", "setparam", "rtp", "packets-lost", "decode-error", "stream-write-error":
			if e.Session != nil && sessClose[e.Session] > 0 {
				return &fail{tag + "/callback-after-session-close/" + e.Kind, fmt.Sprintf("callback %s for a session after its OnSessionClose (%+v)", e.Kind, c)}
			}
		}
	}
	for k, n := range connOpen {
		if n != 1 || connClose[k] != 1 {
			return &fail{tag + "/conn-notifications-unbalanced", fmt.Sprintf("a connection got %d open and %d close notifications (%+v)", n, connClose[k], c)}
		}
	}
	for k, n := range connClose {
		if connOpen[k] != 1 {
			return &fail{tag + "/conn-close-without-open", fmt.Sprintf("%d close notifications without open (%+v)", n, c)}
		}
	}
	for k, n := range sessOpen {
		if n != 1 || sessClose[k] != 1 {
			return &fail{tag + "/session-notifications-unbalanced", fmt.Sprintf("a session got %d open and %d close notifications (%+v)", n, sessClose[k], c)}
		}
	}
	for k, n := range sessClose {
		if sessOpen[k] != 1 {
			return &fail{tag + "/session-close-without-open", fmt.Sprintf("%d close notifications without open (%+v)", n, c)}
		}
	}
	return nil
}

func stepName(sc scenario, k int) string {
	if k < len(sc.steps) {
		return sc.steps[k].name
	}
	return "end"
}

type jobT struct {
	Cases []Case `json:"cases"`
}
type jobOut struct {
	Fails []*fail  `json:"fails"`
	Info  []string `json:"info"` // fault cases: the operation that was failed ("" = the n-th operation did not occur)
}

func main() {
	if evid.IsWorker() {
		evid.ServeWorker(func(raw json.RawMessage) any {
			var j jobT
			json.Unmarshal(raw, &j) //nolint:errcheck
			var out jobOut
			for _, c := range j.Cases {
				if c.Mode == "fault" {
					f, info := runFault(c)
					out.Fails = append(out.Fails, f)
					out.Info = append(out.Info, info)
					continue
				}
				out.Fails = append(out.Fails, runCase(c))
				out.Info = append(out.Info, "")
			}
			return out
		})
	}
	run := evid.New("C13", "model_checking")
	run.Rule("whole system: case = (scenario in {play-tcp, play-udp, record-tcp, record-udp, two-readers-tcp, stalled-reader-tcp, play/record over the WebSocket tunnel, play-tcp / play-udp / record-tcp over rtsps with SRTP}, step index k = 0..len(steps), closer in {Server.Close, ServerStream.Close, Client.Close}, order in {after step k-1 completed, concurrently with step k}); all combinations; plus handler-gated in-flight cases {record, play} x {udp, tcp} x closer {TEARDOWN, Server.Close, connection drop + timeout | Client.Close, Server.Close, ServerStream.Close}: the harness holds a packet callback open, starts the closer, lets the library run to quiescence, releases the callback; plus Client.Close against a scripted server that keeps sending unsolicited {responses, requests}: the client's routine is held in its hook, the reader is parked with the next message and a backlog of 64 behind it, Close starts, the hook is released (8 trials each - the runtime's choice between the two ready channels is not controlled); plus requests queued at a session while it ends: the session is held inside a handler, 1-2 further connections send {OPTIONS, GET_PARAMETER, TEARDOWN, PLAY, PAUSE} with its id, terminator in {none, ServerSession.Close, ServerStream.Close, Server.Close}, the handler is released (120 cases); plus Server.Close while a connection is between the listener and the server (network Accept hook, 12 trials x {no, one} established connection); plus Client.Close while the client's first exchange is pending against a peer that accepted and says nothing (plain first request, TLS handshake, HTTP tunnel, WebSocket tunnel); plus ONE ENVIRONMENT FAULT per execution: in every client-driven scenario the n-th operation of one class fails - dial by the client (ECONNREFUSED, n<=3), opening of a client datagram socket (EADDRINUSE, n<=6), read / write on the client's or the server's side of a control connection (ECONNRESET, the connection is reset; n<=10 / 12), datagram send by server or client (ENETUNREACH, n<=8) - every step of the scenario must still return, then the client is closed, 60 s of virtual time pass and the server must have ended every connection and session by itself, then everything is closed with the usual oracle; and Server.Start with its n-th socket refused (n<=4) fails and leaves nothing behind; cores: every interleaving (preemption bound <=2 quick / <=3 thorough) of the lifecycle drivers of rtpsender.Sender, rtpreceiver.Receiver and the async processor under the controlled scheduler. states = distinct (scenario, k, closer, order) situations + distinct core histories; transitions = protocol steps and scheduling points executed; every trace runs on the implementation. non-trivial = k >= 1")
	run.Assume("wall-clock is only the hang detector; virtual time is advanced by up to 150 s at quiescence while a call is pending")
	run.Assume("the whole-system part runs free (Go scheduler decides the interleaving of the racing order); exhaustive interleaving exploration is limited to the component cores")

	var cases []Case
	for _, sc := range scenarios() {
		for k := 0; k <= len(sc.steps); k++ {
			for _, who := range sc.closers {
				for _, mode := range []string{"after", "concurrent"} {
					if mode == "concurrent" && k == len(sc.steps) {
						continue
					}
					if who == "client" && k == 0 {
						continue
					}
					cases = append(cases, Case{sc.name, k, who, mode})
				}
			}
		}
	}
	cases = append(cases, inflightCases()...)
	cases = append(cases, faultCases()...)
	if run.Replay != "" {
		var d struct {
			Case Case `json:"case"`
		}
		if err := evid.LoadReplay(run.Replay, &d); err != nil {
			run.Fatal("replay: %v", err)
		}
		cases = []Case{d.Case}
	}
	repeat := 1
	if run.Thorough() {
		repeat = 5 // the racing order is decided by the Go scheduler: repeat to see more of its choices
	}
	if v := os.Getenv("C13_REPEAT"); v != "" {
		fmt.Sscan(v, &repeat) // development aid (with --replay: the same case many times)
	}
	var jobs []any
	var jobCases [][]Case
	for r := 0; r < repeat; r++ {
		for i := 0; i < len(cases); i += 8 {
			j := min(i+8, len(cases))
			jobs = append(jobs, jobT{cases[i:j]})
			jobCases = append(jobCases, cases[i:j])
		}
	}
	results := evid.RunJobs(jobs, 16, 5*time.Minute)
	confirmed := map[string]bool{}
	faultsFired, faultsNotReached := 0, 0
	for ji, r := range results {
		if r.Crashed || r.Stalled {
			sig := "crash"
			if r.Stalled {
				sig = "stall"
			}
			run.Violation("worker/"+sig, map[string]any{"cases_in_job": jobCases[ji], "stderr": r.Stderr})
			continue
		}
		var out jobOut
		if err := json.Unmarshal(r.Output, &out); err != nil || len(out.Fails) != len(jobCases[ji]) {
			run.Fatal("bad worker output: %v", err)
		}
		for k, f := range out.Fails {
			c := jobCases[ji][k]
			run.Eval(1)
			run.Trace(1)
			run.Transition(int64(c.K + 4))
			run.State(fmt.Sprint(c))
			if c.K >= 1 {
				run.Nontrivial(fmt.Sprint(c))
			}
			run.Outcome(fmt.Sprint(c.Scenario, c.Who, c.Mode, f == nil))
			if c.Mode == "fault" {
				if k < len(out.Info) && out.Info[k] != "" {
					faultsFired++
					run.Outcome(fmt.Sprint("fault fired: ", c.Scenario, " ", c.Who))
				} else {
					faultsNotReached++
				}
			}
			if f != nil {
				// the racing order of these executions is the Go scheduler's: a failure counts when the same
				// case fails the same way again within 40 more runs (or 90 s); the rate is part of the report
				again, runs := 0, 0
				if confirmed[f.Sig] {
					// this signature has already been reproduced with another case: no need to spend the hang
					// detector's seconds on every further case of a tree that is broken this way
					run.Violation(f.Sig, map[string]any{"case": c, "msg": f.Msg, "reproduced": "signature already confirmed by another case"})
					continue
				}
				if run.Replay == "" {
					t0 := time.Now()
					for runs < 40 && again < 2 && time.Since(t0) < 90*time.Second {
						batch := make([]Case, 4)
						for i := range batch {
							batch[i] = c
						}
						rr := evid.RunJobs([]any{jobT{batch}}, 1, 3*time.Minute)
						runs += len(batch)
						if rr[0].Crashed || rr[0].Stalled {
							again++
							continue
						}
						var o2 jobOut
						json.Unmarshal(rr[0].Output, &o2) //nolint:errcheck
						for _, f2 := range o2.Fails {
							if f2 != nil && f2.Sig == f.Sig {
								again++
							}
						}
					}
					if again == 0 {
						run.Flaky(fmt.Sprintf("%s: failed once, not again in %d more runs of the same case: %s", f.Sig, runs, f.Msg))
						continue
					}
				}
				confirmed[f.Sig] = true
				run.Violation(f.Sig, map[string]any{"case": c, "msg": f.Msg, "reproduced": fmt.Sprintf("%d times in %d more runs", again, runs)})
			} else if run.NeedSample() && k == 3 {
				run.Sample(c)
			}
		}
	}
	if run.Replay == "" {
		cores(run)
	}
	run.Set("whole_system_cases", len(cases))
	run.Set("environment_fault_cases", map[string]int{"fault_injected": faultsFired, "nth_operation_did_not_occur": faultsNotReached})
	run.Finish()
}
