#!/usr/bin/env python3
import os, subprocess, sys
here = os.path.dirname(os.path.dirname(os.path.dirname(os.path.abspath(__file__))))
sys.stdout.write(subprocess.run([sys.executable, os.path.join(here, "tools", "overlay_sys.py"), sys.argv[1], sys.argv[2]], check=True, capture_output=True, text=True).stdout)
