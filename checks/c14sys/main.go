// C14, binding part - the receiver as the client and the server configure and feed it. The property is
// stated for "an unreliable transport" and "every transport": which mode a receiver runs in is decided by
// client_format.go / server_session_format.go from the negotiated transport. Real Client against a scripted
// server and real Server against a raw publisher, on the in-memory network; the same arrival history
// (displacements within the reorder window, duplicates) is sent to every UDP configuration,
// an in-order history with one gap to every TCP configuration.
//
// Oracle: UDP - the application sees strictly increasing sequence numbers, every packet that arrived
// exactly once, and nothing is reported lost; TCP - every packet in arrival
// order, packets-lost = the gap. Prints one JSON object; run by checks/c14 through VERIF_SYS.
package main

import (
	"bufio"
	"encoding/json"
	"fmt"
	"net"
	"os"
	"strings"
	"sync"
	"time"

	"github.com/pion/rtp"

	"github.com/bluenviron/gortsplib/v5"
	"github.com/bluenviron/gortsplib/v5/pkg/base"
	"github.com/bluenviron/gortsplib/v5/pkg/conn"
	"github.com/bluenviron/gortsplib/v5/pkg/description"
	"github.com/bluenviron/gortsplib/v5/pkg/format"

	"verif/internal/sysx"
)

type res struct {
	Config    string   `json:"configuration"`
	Sent      []uint16 `json:"arrival_order"`
	Delivered []uint16 `json:"delivered"`
	Lost      uint64   `json:"lost_reported"`
	WrongData []string `json:"delivered_with_other_content,omitempty"`
	Fail      string   `json:"fail,omitempty"`
	Msg       string   `json:"msg,omitempty"`
	Err       string   `json:"harness_error,omitempty"`
}

// 100 101 101(dup) 103 102(displaced by 1) 104 107 106 105(displaced by 2) 105(dup) 108 100(late dup) 109
// (no real gap: packets behind a gap stay in the reorder buffer until it fills - the unit part covers that)
var udpHistory = []uint16{100, 101, 101, 103, 102, 104, 107, 106, 105, 105, 108, 100, 109}
var udpWant = []uint16{100, 101, 102, 103, 104, 105, 106, 107, 108, 109}

var tcpHistory = []uint16{100, 101, 102, 104, 105}
var tcpWant = tcpHistory

func pkt(seq uint16) []byte {
	b, _ := (&rtp.Packet{Header: rtp.Header{Version: 2, PayloadType: 96, SequenceNumber: seq, Timestamp: uint32(seq) * 3000, SSRC: 0x5566}, Payload: []byte{0x05, byte(seq), 2, 3}}).Marshal()
	return b
}

const sdp = "v=0\r\no=- 0 0 IN IP4 127.0.0.1\r\ns=x\r\nc=IN IP4 0.0.0.0\r\nt=0 0\r\nm=video 0 RTP/AVP 96\r\na=rtpmap:96 H264/90000\r\na=fmtp:96 packetization-mode=1\r\na=control:trackID=0\r\n"

// content: every packet carries its own sequence number in its payload; a reordered packet that is handed over
// later must still be the datagram that arrived under that number
func content(r *res, p *rtp.Packet) {
	if len(p.Payload) != 4 || p.Payload[0] != 0x05 || p.Payload[1] != byte(p.SequenceNumber) || p.Payload[2] != 2 || p.Payload[3] != 3 {
		r.WrongData = append(r.WrongData, fmt.Sprintf("seq %d delivered with payload %x", p.SequenceNumber, p.Payload))
	}
}

func judge(r *res, want []uint16, wantLost uint64) {
	if len(r.WrongData) > 0 {
		r.Fail = "delivered-packet-carries-other-content"
		r.Msg = fmt.Sprintf("arrival order %v: %v (every packet was sent with its own sequence number in its payload)", r.Sent, r.WrongData)
		return
	}
	if fmt.Sprint(r.Delivered) != fmt.Sprint(want) {
		r.Fail = "delivery-differs"
		r.Msg = fmt.Sprintf("arrival order %v: the application saw %v, the property demands %v", r.Sent, r.Delivered, want)
		return
	}
	if r.Lost != wantLost {
		r.Fail = "loss-accounting-differs"
		r.Msg = fmt.Sprintf("arrival order %v: %d packets reported lost, %d sequence numbers were skipped between delivered packets", r.Sent, r.Lost, wantLost)
	}
}

// client plays from a scripted server. serverPorts=false: the SETUP answer has no server_port (valid with
// AnyPortEnable).
func client(proto string, serverPorts bool) (r res) {
	r.Config = "client-" + proto
	if proto == "udp" && !serverPorts {
		r.Config += "-anyport-no-server-port"
	}
	env := sysx.NewEnv()
	ln, err := env.Net.Listen("tcp", "127.0.0.1:8554")
	if err != nil {
		r.Err = err.Error()
		return
	}
	defer ln.Close()
	var smu sync.Mutex
	var sconn net.Conn
	var clientPorts [2]int
	played := make(chan struct{})
	go func() {
		nc, err := ln.Accept()
		if err != nil {
			return
		}
		smu.Lock()
		sconn = nc
		smu.Unlock()
		co := conn.NewConn(bufio.NewReader(nc), nc)
		for {
			what, err := co.Read()
			if err != nil {
				return
			}
			req, ok := what.(*base.Request)
			if !ok {
				continue
			}
			rs := &base.Response{StatusCode: base.StatusOK, Header: base.Header{"CSeq": req.Header["CSeq"]}}
			switch req.Method {
			case base.Options:
				rs.Header["Public"] = base.HeaderValue{"DESCRIBE, SETUP, PLAY, TEARDOWN"}
			case base.Describe:
				rs.Header["Content-Type"] = base.HeaderValue{"application/sdp"}
				rs.Header["Content-Base"] = base.HeaderValue{"rtsp://127.0.0.1:8554/stream/"}
				rs.Body = []byte(sdp)
			case base.Setup:
				tr := req.Header["Transport"][0]
				if proto == "tcp" {
					rs.Header["Transport"] = base.HeaderValue{"RTP/AVP/TCP;unicast;interleaved=0-1"}
				} else {
					cp := tr[strings.Index(tr, "client_port=")+len("client_port="):]
					if i := strings.IndexByte(cp, ';'); i >= 0 {
						cp = cp[:i]
					}
					fmt.Sscanf(cp, "%d-%d", &clientPorts[0], &clientPorts[1])
					t := "RTP/AVP;unicast;client_port=" + cp
					if serverPorts {
						t += ";server_port=8000-8001"
					}
					rs.Header["Transport"] = base.HeaderValue{t}
				}
				rs.Header["Session"] = base.HeaderValue{"ABCD1234"}
			}
			smu.Lock()
			err = co.WriteResponse(rs)
			smu.Unlock()
			if err != nil {
				return
			}
			if req.Method == base.Play {
				close(played)
			}
		}
	}()
	var mu sync.Mutex
	p := gortsplib.ProtocolTCP
	if proto == "udp" {
		p = gortsplib.ProtocolUDP
	}
	cli := env.NewClient(func(c *gortsplib.Client) {
		c.Protocol = &p
		c.AnyPortEnable = !serverPorts
		c.OnPacketsLost = func(n uint64) { mu.Lock(); r.Lost += n; mu.Unlock() }
		c.OnDecodeError = func(error) {}
	})
	defer func() {
		cli.Close()
		smu.Lock()
		if sconn != nil {
			sconn.Close()
		}
		smu.Unlock()
	}()
	if err = cli.Start(); err != nil {
		r.Err = err.Error()
		return
	}
	d, _, err := cli.Describe(sysx.MustURL("rtsp://127.0.0.1:8554/stream"))
	if err != nil {
		r.Err = "describe: " + err.Error()
		return
	}
	if err = cli.SetupAll(d.BaseURL, d.Medias); err != nil {
		r.Err = "setup: " + err.Error()
		return
	}
	cli.OnPacketRTPAny(func(_ *description.Media, _ format.Format, p *rtp.Packet) {
		mu.Lock()
		r.Delivered = append(r.Delivered, p.SequenceNumber)
		content(&r, p)
		mu.Unlock()
	})
	if _, err = cli.Play(nil); err != nil {
		r.Err = "play: " + err.Error()
		return
	}
	select {
	case <-played:
	case <-time.After(sysx.HangLimit):
		r.Err = "PLAY not seen"
		return
	}
	sysx.Settle()
	hist, want, lost := udpHistory, udpWant, uint64(0)
	if proto == "tcp" {
		hist, want, lost = tcpHistory, tcpWant, 1
	}
	r.Sent = hist
	for _, s := range hist {
		if proto == "tcp" {
			fr := base.InterleavedFrame{Channel: 0, Payload: pkt(s)}
			b, _ := fr.Marshal()
			smu.Lock()
			sconn.Write(b) //nolint:errcheck
			smu.Unlock()
		} else {
			env.Net.Inject(&net.UDPAddr{IP: net.IPv4(127, 0, 0, 1), Port: 8000}, clientPorts[0], pkt(s))
		}
		sysx.Settle()
	}
	mu.Lock()
	defer mu.Unlock()
	judge(&r, want, lost)
	return
}

// server records from a raw publisher.
func server(proto string) (r res) {
	r.Config = "server-" + proto
	env := sysx.NewEnv()
	srv, app, err := env.StartServer(sysx.ServerOpts{Handlers: "all", UDP: true, NoStream: true})
	if err != nil {
		r.Err = err.Error()
		return
	}
	defer srv.Close()
	var mu sync.Mutex
	app.OnRTP = func(_ *gortsplib.ServerSession, _ *description.Media, _ format.Format, p *rtp.Packet) {
		mu.Lock()
		r.Delivered = append(r.Delivered, p.SequenceNumber)
		content(&r, p)
		mu.Unlock()
	}
	peer, err := env.Dial(nil)
	if err != nil {
		r.Err = err.Error()
		return
	}
	defer peer.Close()
	u := sysx.MustURL("rtsp://127.0.0.1:8554/stream")
	rs, err := peer.Do(&base.Request{Method: base.Announce, URL: u, Header: base.Header{"Content-Type": base.HeaderValue{"application/sdp"}}, Body: []byte(sdp)})
	if err != nil || rs.StatusCode != base.StatusOK {
		r.Err = fmt.Sprint("announce: ", rs, err)
		return
	}
	th := "RTP/AVP/TCP;unicast;interleaved=0-1;mode=record"
	if proto == "udp" {
		th = "RTP/AVP;unicast;client_port=35466-35467;mode=record"
	}
	rs, err = peer.Do(&base.Request{Method: base.Setup, URL: sysx.MustURL("rtsp://127.0.0.1:8554/stream/trackID=0"), Header: base.Header{"Transport": base.HeaderValue{th}}})
	if err != nil || rs.StatusCode != base.StatusOK {
		r.Err = fmt.Sprint("setup: ", rs, err)
		return
	}
	id := rs.Header["Session"][0]
	if i := strings.IndexByte(id, ';'); i > 0 {
		id = id[:i]
	}
	rs, err = peer.Do(&base.Request{Method: base.Record, URL: u, Header: base.Header{"Session": base.HeaderValue{id}}})
	if err != nil || rs.StatusCode != base.StatusOK {
		r.Err = fmt.Sprint("record: ", rs, err)
		return
	}
	sysx.Settle()
	hist, want := udpHistory, udpWant
	if proto == "tcp" {
		hist, want = tcpHistory, tcpWant
	}
	r.Sent = hist
	for _, s := range hist {
		if proto == "tcp" {
			fr := base.InterleavedFrame{Channel: 0, Payload: pkt(s)}
			b, _ := fr.Marshal()
			peer.SendRaw(b) //nolint:errcheck
		} else {
			env.Net.Inject(&net.UDPAddr{IP: net.IPv4(127, 0, 0, 1), Port: 35466}, 8000, pkt(s))
		}
		sysx.Settle()
	}
	for _, e := range env.Log.Snapshot() {
		if e.Kind == "packets-lost" {
			var n uint64
			fmt.Sscan(e.Info, &n)
			r.Lost += n
		}
	}
	mu.Lock()
	defer mu.Unlock()
	wantLost := uint64(0)
	if proto == "tcp" {
		wantLost = 1
	}
	judge(&r, want, wantLost)
	return
}

func main() {
	var out struct {
		Cases []res `json:"cases"`
	}
	out.Cases = append(out.Cases, client("udp", true), client("udp", false), client("tcp", true), server("udp"), server("tcp"))
	json.NewEncoder(os.Stdout).Encode(out) //nolint:errcheck
}
