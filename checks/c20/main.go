// C20 — URL fidelity: path, query and track resolution agree between client and server.
//
// Part A (end to end): a real gortsplib.Server (sysx recording handler) and a real gortsplib.Client on
// the in-memory network; exhaustive product of finite menus (path segments x query x authority x
// user-info x media count x flow). At every step the handler must observe exactly the path and query of
// the original URL, SETUP number i must configure the media it was issued for (medias are set up in a
// non-identity order), and no request line on the wire carries user-info.
// Part B (unit): description.Media.URL / client findBaseURL composed with the server's URL analysis
// functions over the same URL space and a menu of control-attribute styles.
//
// No sampling. Executions run in worker subprocesses (the virtual clock is process-global).
package main

import (
	"encoding/json"
	"fmt"
	"os"
	"runtime"
	"sort"
	"strconv"
	"strings"
	"sync"
	"syscall"
	"time"

	"github.com/bluenviron/gortsplib/v5"
	"github.com/bluenviron/gortsplib/v5/pkg/base"

	"verif/internal/evid"
)

// ---------------------------------------------------------------- worker protocol

type jobT struct {
	Thorough bool      `json:"thorough"`
	From     int       `json:"from"`
	To       int       `json:"to"`
	Rerun    []e2eCase `json:"rerun,omitempty"` // explicit cases, each run Times times
	Times    int       `json:"times,omitempty"`
}

type jobFail struct {
	Idx  int   `json:"i"`
	Fail failT `json:"f"`
}

type jobOut struct {
	Evals    int            `json:"evals"`
	Steps    int            `json:"steps"`
	Lines    int            `json:"lines"`
	LinesUI  int            `json:"lines_ui"`
	Fails    []jobFail      `json:"fails,omitempty"`
	Outcomes map[string]int `json:"outcomes"`
	Sample   any            `json:"sample,omitempty"`
	Capped   int            `json:"capped,omitempty"` // cases not run because the job had already collected maxFailsPerJob failures
}

// a failing execution may cost the hang detector's wait; a tree that is broken for a whole class of URLs
// would otherwise keep the check busy for hours
const maxFailsPerJob = 5

func outcomeKey(c e2eCase, r e2eResult) string {
	k := fmt.Sprintf("%s n=%d: %s", c.Flow, c.N, strings.Join(r.Shapes, " | "))
	if r.Fail != nil {
		k = fmt.Sprintf("%s n=%d FAIL %s", c.Flow, c.N, r.Fail.group(c.Flow))
	}
	return k
}

var (
	workerCases    *e2eSpace
	workerThorough bool
)

func worker(raw json.RawMessage) any {
	var j jobT
	if err := json.Unmarshal(raw, &j); err != nil {
		return map[string]string{"error": err.Error()}
	}
	out := jobOut{Outcomes: map[string]int{}}
	if len(j.Rerun) > 0 {
		for i, c := range j.Rerun {
			for t := 0; t < j.Times; t++ {
				r := runE2E(c)
				out.Evals++
				if r.Fail != nil {
					out.Fails = append(out.Fails, jobFail{i, *r.Fail})
				}
			}
		}
		return out
	}
	if workerCases == nil || workerThorough != j.Thorough {
		workerCases, workerThorough = newE2ESpace(j.Thorough), j.Thorough
	}
	for i := j.From; i < j.To && i < workerCases.Len(); i++ {
		if len(out.Fails) >= maxFailsPerJob {
			out.Capped = min(j.To, workerCases.Len()) - i
			break
		}
		c := workerCases.At(i)
		r := runE2E(c)
		out.Evals++
		out.Steps += r.Steps
		out.Lines += r.Lines
		if c.Spec.U != 0 {
			out.LinesUI += r.Lines
		}
		out.Outcomes[outcomeKey(c, r)]++
		if r.Fail != nil {
			out.Fails = append(out.Fails, jobFail{i, *r.Fail})
		} else if out.Sample == nil && i%7 == 3 {
			out.Sample = map[string]any{"part": "e2e", "url": c.Spec.URL(), "medias": c.N, "flow": c.Flow,
				"handler_path": c.Spec.Path(), "handler_query": c.Spec.Query(), "request_lines": r.Shapes}
		}
	}
	return out
}

func workerProcs() int {
	if n, err := strconv.Atoi(os.Getenv("C20_WORKER_PROCS")); err == nil && n > 0 {
		return n
	}
	return 1
}

// ---------------------------------------------------------------- replay

type replayT struct {
	Part string    `json:"part"`
	E2E  *e2eCase  `json:"e2e,omitempty"`
	Unit *unitCase `json:"unit,omitempty"`
	Sig  string    `json:"signature"`
	URL  string    `json:"url"`
	Msg  string    `json:"msg"`
}

func main() {
	if evid.IsWorker() {
		// one execution at a time per worker (the virtual clock is process-global); a single
		// processor makes every goroutine hand-over an in-process switch (5x faster than 2, 10x faster
		// than 16 on a busy machine) and keeps 16 workers from fighting over 256 processors
		runtime.GOMAXPROCS(workerProcs())
		evid.ServeWorker(worker)
	}
	run := evid.New("C20", "exploration")
	run.MaxVio = 40
	run.Rule("URL = path of 1..3 segments (quick: 1..2) from {a, a%20b, a=b, a&b, trackID=5, %41, a%2Fb, %C3%BC, a@b} x query {none, x=1, x=1&y=2, p=/q, t=/trackID=7, a=%2F, u=a@b} " +
		"x authority {127.0.0.1:8554, [::1]:8554, localhost:8554} x user-info {none, u:p, u:p%40x (thorough only)}; complete product, no sampling. " +
		"Part A: x media count 1..3 x flow {play: DESCRIBE, SETUP each media in the order (n=2: 1,0; n=3: 2,0,1), PLAY, PAUSE, TEARDOWN; record: ANNOUNCE, SETUPs, RECORD, PAUSE, TEARDOWN} over TCP, one fresh server+client per execution; plus, per URL, two play cases with 2 medias and an additional back-channel media in the served description at index 0 / 1 which the client does not ask for (the client's media numbering differs from the server's). " +
		"Part B: x control style (14 styles, see unit.go) x media count 1..3 x media index. non-trivial = URL has at least one feature beyond the plain /a on IPv4 without query and user-info; distinct = the case tuple. " +
		"A failing case is reported only when no simpler case of the space (one feature removed: segment kind -> a, one segment dropped, query -> x=1 -> none, authority -> IPv4, user-info escaped -> plain -> none, one media less) fails in the same way; the URL class in the signature lists the features of that minimal case (signatures: <flow>/<step>/<failure>/<class>, wire/<failure>/<class>, unit/<play|record>/<failure>/<class>/<control style>).")
	run.Assume("handler convention, read from getPathAndQuery for the plain URL /a/b?x=1: Path = decoded path with its leading slash (\"/a/b\"), Query = raw query without '?' (\"x=1\"); the same convention is demanded for every URL (so %41 -> \"/A\", a%2Fb -> \"/a/b\", a%20b -> \"/a b\"); calibrated at run time")
	run.Assume("which media a SETUP configured is read from ServerSession.Medias() (order of set-up) against the server's own description (play: the stream's medias; record: AnnouncedDescription), plus media type / format type against the client's media")
	run.Assume("user-info check: every line '<METHOD> <url> RTSP/1.0' written by the client; violation when the authority part of <url> contains '@' or the URL contains '<userinfo>@'")
	run.Assume("part B, styles server / relative-nocb / relative-cb-noslash / session-control / absolute / absolute-otherhost / leading-slash(no Content-Base): the SETUP URL analysed by getPathAndQueryAndTrackID must give exactly (path, query, track) and the base URL analysed by getPathAndQuery exactly (path, query)")
	run.Assume("part B, camera styles: leading-slash with a trailing-slash Content-Base: only the track must come back; leading '?' (qmark-*): Media.URL returns a non-nil URL that is base+control byte for byte, and when the original URL has no query the analysed path is the original path and the query is the control without '?'")
	run.Assume("part B, record styles (trackID=i as the library client announces, streamid=i, stream=i, absolute): findMediaByURL(path, query of the ANNOUNCE URL, SETUP URL resolved by Media.URL) must return the media the URL was resolved for")
	run.Assume("a failure that is also produced by a simpler case is attributed to the simpler case (monotonicity); all failing cases are counted in failing_cases_by_kind")

	if run.Replay != "" {
		var rp replayT
		if err := evid.LoadReplay(run.Replay, &rp); err != nil {
			run.Fatal("replay: %v", err)
		}
		run.Eval(1)
		var f *failT
		group := ""
		switch {
		case rp.Part == "e2e" && rp.E2E != nil:
			// in a worker process: a panic in a library goroutine must not take the replay down
			rr := evid.RunJobs([]any{jobT{Rerun: []e2eCase{*rp.E2E}, Times: 1}}, 1, time.Minute)[0]
			if rr.Crashed || rr.Stalled {
				kind := "crash"
				if rr.Stalled {
					kind = "hang"
				}
				f = &failT{Step: kind, Kind: kind, Msg: "worker process " + kind + "; stderr tail: " + tail(rr.Stderr, 1500)}
				group = rp.E2E.Flow + "/" + kind
			} else {
				var o jobOut
				if err := json.Unmarshal(rr.Output, &o); err != nil {
					run.Fatal("worker output: %v", err)
				}
				if len(o.Fails) > 0 {
					f = &o.Fails[0].Fail
					group = f.group(rp.E2E.Flow)
				}
			}
		case rp.Part == "unit" && rp.Unit != nil:
			f, _ = runUnit(*rp.Unit)
			if f != nil {
				fmt.Printf("replay reproduces: %s\n", f.Msg)
				rp.Msg = f.Msg
				run.Violation(unitSig(*rp.Unit, f, classOfSig(rp.Sig, 3)), rp)
				f = nil
			} else {
				fmt.Println("replay: no violation")
			}
			run.Finish()
		case rp.Part == "convention":
			if msg := calibrate(); msg != "" {
				run.Violation("convention/plain-url", rp)
			}
			run.Finish()
		default:
			run.Fatal("replay file has no case")
		}
		if f != nil {
			fmt.Printf("replay reproduces: %s: %s\n", group, f.Msg)
			sig := rp.Sig
			if !strings.HasPrefix(sig, group+"/") {
				sig = group + "/" + lastElem(rp.Sig)
			}
			rp.Msg = f.Msg
			run.Violation(sig, rp)
		} else {
			fmt.Println("replay: no violation")
		}
		run.Finish()
	}

	if msg := calibrate(); msg != "" {
		run.Violation("convention/plain-url", replayT{Part: "convention", Sig: "convention/plain-url", URL: "rtsp://127.0.0.1:8554/a/b?x=1", Msg: msg})
	}

	t0 := time.Now()
	c0 := cpuSeconds(syscall.RUSAGE_SELF)
	partA(run)
	t1 := time.Now()
	c1 := cpuSeconds(syscall.RUSAGE_SELF)
	partB(run)
	run.Set("cpu_s_part_a_workers", cpuSeconds(syscall.RUSAGE_CHILDREN))
	run.Set("cpu_s_part_a_parent", float64(int((c1-c0)*10))/10)
	run.Set("cpu_s_part_b", float64(int((cpuSeconds(syscall.RUSAGE_SELF)-c1)*10))/10)
	run.Set("wall_s_part_a", float64(int(t1.Sub(t0).Seconds()*10))/10)
	run.Set("wall_s_part_b", float64(int(time.Since(t1).Seconds()*10))/10)
	run.Finish()
}

// cpuSeconds reports processor time used (evidence only: tells load-induced slowness from real cost).
func cpuSeconds(who int) float64 {
	var ru syscall.Rusage
	if syscall.Getrusage(who, &ru) != nil {
		return -1
	}
	t := float64(ru.Utime.Sec+ru.Stime.Sec) + float64(ru.Utime.Usec+ru.Stime.Usec)/1e6
	return float64(int(t*10)) / 10
}

func tail(s string, n int) string {
	if len(s) > n {
		return s[len(s)-n:]
	}
	return s
}

func lastElem(sig string) string {
	i := strings.LastIndex(sig, "/")
	return sig[i+1:]
}

// classOfSig returns element i of a signature (the URL class of a recorded violation).
func classOfSig(sig string, i int) string {
	p := strings.Split(sig, "/")
	if i < len(p) {
		return p[i]
	}
	return "unknown"
}

// unitSig: unit/<play|record>/<failure>/<url class>/<control style> - the class comes before the style so
// that one known-finding key covers one URL feature across the styles that share the code path.
func unitSig(c unitCase, f *failT, class string) string {
	mode := "play"
	if strings.HasPrefix(c.Style, "record-") {
		mode = "record"
	}
	return "unit/" + mode + "/" + f.Kind + "/" + class + "/" + c.Style
}

// calibrate checks the convention on the plain URL.
func calibrate() string {
	u, err := base.ParseURL("rtsp://127.0.0.1:8554/a/b?x=1")
	if err != nil {
		return err.Error()
	}
	for _, ann := range []bool{false, true} {
		p, q := gortsplib.VerifC20GetPathAndQuery(u, ann)
		if p != "/a/b" || q != "x=1" {
			return fmt.Sprintf("getPathAndQuery(/a/b?x=1, announce=%v) = (%q, %q): the convention (decoded path with leading slash, raw query) no longer holds", ann, p, q)
		}
	}
	return ""
}

// ---------------------------------------------------------------- part B

func partB(run *evid.Run) {
	specs := enumSpecs(run.Thorough())
	type rec struct {
		group string
		fail  failT
		c     unitCase
		ord   int
	}
	var mu sync.Mutex
	fails := map[string]rec{}
	byKind := map[string]int{}
	var okN, total int64
	evid.Parallel(16, 16, func(w int) {
		lf := map[string]rec{}
		lo := map[string]struct{}{}
		var lok, ln int64
		for si := w; si < len(specs); si += 16 {
			nontrivial := len(specs[si].features()) > 0
			for ci, c := range unitCasesOf(specs[si]) {
				f, oc := runUnit(c)
				ln++
				k := c.key()
				if f != nil {
					lf[k] = rec{"unit/" + f.Step + "/" + f.Kind, *f, c, si*1000 + ci}
					oc = "FAIL " + f.Kind
				} else {
					lok++
				}
				lo[c.Style+" "+oc] = struct{}{}
				if nontrivial || c.K > 0 {
					run.NontrivialHash(evid.Hash("B" + k))
				}
			}
		}
		run.Eval(ln)
		mu.Lock()
		for k, v := range lf {
			fails[k] = v
			byKind[v.group]++
		}
		okN += lok
		total += ln
		mu.Unlock()
		for k := range lo {
			run.Outcome("B " + k)
		}
	})
	run.Set("unit_cases", total)
	run.Set("unit_cases_ok", okN)
	run.Set("unit_cases_failing", len(fails))
	run.Set("unit_failing_cases_by_kind", byKind)
	// a few written-out cases
	for _, si := range []int{0, len(specs) / 3, len(specs) / 2, len(specs) - 1} {
		cs := unitCasesOf(specs[si])
		c := cs[(si*7)%len(cs)]
		f, oc := runUnit(c)
		run.Sample(map[string]any{"part": "unit", "url": c.Spec.URL(), "style": c.Style, "medias": c.N, "media": c.K, "setup_url_shape": oc, "fail": f})
	}
	// minimal failing cases
	var keys []string
	for k := range fails {
		keys = append(keys, k)
	}
	sort.Slice(keys, func(a, b int) bool { return fails[keys[a]].ord < fails[keys[b]].ord })
	minimal := 0
	for _, k := range keys {
		r := fails[k]
		c := r.c
		isMin := true
		for _, s := range c.simpler() {
			if o, ok := fails[s.key()]; ok && o.group == r.group {
				isMin = false
				break
			}
		}
		if !isMin {
			continue
		}
		minimal++
		// deterministic? (pure functions; re-run anyway)
		stable := true
		for t := 0; t < 3; t++ {
			f2, _ := runUnit(c)
			if f2 == nil || f2.Kind != r.fail.Kind {
				stable = false
			}
		}
		sig := unitSig(c, &r.fail, classOf(c.features()))
		if !stable {
			run.Flaky(sig + " " + c.Spec.URL())
			continue
		}
		cc := c
		run.Violation(sig, replayT{Part: "unit", Unit: &cc, Sig: sig, URL: c.Spec.URL(), Msg: r.fail.Msg})
	}
	run.Set("unit_minimal_failing_cases", minimal)
}

// ---------------------------------------------------------------- part A

func partA(run *evid.Run) {
	space := newE2ESpace(run.Thorough())
	total := space.Len()
	per := 600
	var jobs []any
	for from := 0; from < total; from += per {
		jobs = append(jobs, jobT{Thorough: run.Thorough(), From: from, To: min(from+per, total)})
	}
	type rec struct {
		group string
		fail  failT
	}
	fails := map[string]rec{}
	idx := map[string]int{}
	byKind := map[string]int{}
	outcomes := map[string]int{}
	steps, lines, linesUI := 0, 0, 0
	// collect merges the outputs of one round and returns the jobs whose worker crashed or stalled
	collect := func(jobs []any, results []evid.JobResult) (bad []int) {
		for ji, r := range results {
			if r.Crashed || r.Stalled {
				bad = append(bad, ji)
				continue
			}
			var o jobOut
			if err := json.Unmarshal(r.Output, &o); err != nil {
				run.Fatal("worker output: %v: %s", err, r.Output)
			}
			run.Eval(int64(o.Evals))
			if o.Capped > 0 {
				run.Cap(fmt.Sprintf("a job stopped after %d violations: %d cases not run", maxFailsPerJob, o.Capped))
			}
			steps += o.Steps
			lines += o.Lines
			linesUI += o.LinesUI
			for k, n := range o.Outcomes {
				outcomes[k] += n
			}
			for _, f := range o.Fails {
				c := space.At(f.Idx)
				g := f.Fail.group(c.Flow)
				fails[c.key()] = rec{g, f.Fail}
				idx[c.key()] = f.Idx
				byKind[g]++
			}
			if o.Sample != nil && run.NeedSample() && ji%(len(jobs)/6+1) == 0 {
				run.Sample(o.Sample)
			}
		}
		return bad
	}
	results := evid.RunJobs(jobs, 16, 3*time.Minute)
	if bad := collect(jobs, results); len(bad) > 0 {
		// a worker died or stalled: run the cases of those jobs one per job to find the case
		var singles []any
		for _, ji := range bad {
			j := jobs[ji].(jobT)
			for i := j.From; i < j.To; i++ {
				singles = append(singles, jobT{Thorough: run.Thorough(), From: i, To: i + 1})
			}
		}
		sres := evid.RunJobs(singles, 16, 45*time.Second)
		sbad := collect(singles, sres)
		for _, si := range sbad {
			i := singles[si].(jobT).From
			c := space.At(i)
			kind := "crash"
			if sres[si].Stalled {
				kind = "hang"
			}
			g := c.Flow + "/" + kind
			fails[c.key()] = rec{g, failT{Step: kind, Kind: kind, Msg: "worker process " + kind + " (twice: inside its job and alone); stderr tail: " + tail(sres[si].Stderr, 1500)}}
			idx[c.key()] = i
			byKind[g]++
		}
		if len(sbad) == 0 {
			for _, ji := range bad {
				run.Flaky(fmt.Sprintf("worker crash/stall in job %v did not reproduce case by case: %s", jobs[ji], results[ji].Stderr))
			}
		}
	}
	for i := 0; i < total; i++ {
		if c := space.At(i); len(c.features()) > 0 {
			run.NontrivialHash(evid.Hash("A" + c.key()))
		}
	}
	for k := range outcomes {
		run.Outcome("A " + k)
	}
	run.Set("e2e_cases", total)
	run.Set("e2e_cases_failing", len(fails))
	run.Set("e2e_handler_callbacks_checked", steps)
	run.Set("e2e_request_lines_checked", lines)
	run.Set("e2e_request_lines_checked_url_had_userinfo", linesUI)
	run.Set("e2e_failing_cases_by_kind", byKind)
	run.Set("e2e_outcome_histogram_size", len(outcomes))

	var keys []string
	for k := range fails {
		keys = append(keys, k)
	}
	sort.Slice(keys, func(a, b int) bool { return idx[keys[a]] < idx[keys[b]] })
	var minimal []e2eCase
	nMinimal := 0
	var minRec []rec
	for _, k := range keys {
		c := space.At(idx[k])
		r := fails[k]
		isMin := true
		for _, s := range c.simpler() {
			if o, ok := fails[s.key()]; ok && o.group == r.group {
				isMin = false
				break
			}
		}
		if isMin && (r.fail.Step == "crash" || r.fail.Step == "hang") {
			// already reproduced in a process of its own; a re-run would only kill another worker
			cc := c
			sig := r.group + "/" + classOf(c.features())
			run.Violation(sig, replayT{Part: "e2e", E2E: &cc, Sig: sig, URL: c.Spec.URL(), Msg: r.fail.Msg})
			nMinimal++
		} else if isMin {
			minimal = append(minimal, c)
			minRec = append(minRec, r)
		}
	}
	run.Set("e2e_minimal_failing_cases", len(minimal)+nMinimal)
	if len(minimal) == 0 {
		return
	}
	// determinism: every minimal failing case is executed 3 more times
	const times = 3
	var rjobs []any
	chunk := 8
	for from := 0; from < len(minimal); from += chunk {
		rjobs = append(rjobs, jobT{Rerun: minimal[from:min(from+chunk, len(minimal))], Times: times})
	}
	rres := evid.RunJobs(rjobs, 16, 3*time.Minute)
	for ji, r := range rres {
		from := ji * chunk
		same := map[int]int{}
		if !r.Crashed && !r.Stalled {
			var o jobOut
			if err := json.Unmarshal(r.Output, &o); err != nil {
				run.Fatal("worker output: %v", err)
			}
			run.Eval(int64(o.Evals))
			for _, f := range o.Fails {
				if f.Fail.group(minimal[from+f.Idx].Flow) == minRec[from+f.Idx].group {
					same[f.Idx]++
				}
			}
		}
		for i := 0; from+i < len(minimal) && i < chunk; i++ {
			c := minimal[from+i]
			rc := minRec[from+i]
			sig := rc.group + "/" + classOf(c.features())
			if r.Crashed || r.Stalled {
				run.Violation("e2e/crash", map[string]any{"part": "rerun", "stderr": r.Stderr, "url": c.Spec.URL()})
				continue
			}
			if same[i] != times {
				run.Flaky(fmt.Sprintf("%s %s reproduced %d/%d", sig, c.Spec.URL(), same[i], times))
				continue
			}
			cc := c
			run.Violation(sig, replayT{Part: "e2e", E2E: &cc, Sig: sig, URL: c.Spec.URL(), Msg: rc.fail.Msg})
		}
	}
}
