// Probe: publishing to a URL whose path has a percent escape that url.URL does not produce itself (%41 = 'A',
// a%2Fb) fails at SETUP with 400 "media not found", while reading from the same URL works: the server's
// findMediaByURL (server_session.go) rebuilds the expected SETUP URL from the DECODED path and compares strings.
package main

import (
	"fmt"

	"github.com/bluenviron/gortsplib/v5"
	"github.com/bluenviron/gortsplib/v5/pkg/base"
	"github.com/bluenviron/gortsplib/v5/pkg/description"
	"github.com/bluenviron/gortsplib/v5/pkg/format"
)

type handler struct{}

func ok() *base.Response { return &base.Response{StatusCode: base.StatusOK} }

func (handler) OnAnnounce(*gortsplib.ServerHandlerOnAnnounceCtx) (*base.Response, error) {
	return ok(), nil
}
func (handler) OnRecord(*gortsplib.ServerHandlerOnRecordCtx) (*base.Response, error) {
	return ok(), nil
}
func (handler) OnSetup(c *gortsplib.ServerHandlerOnSetupCtx) (*base.Response, *gortsplib.ServerStream, error) {
	return ok(), nil, nil
}

func main() {
	s := &gortsplib.Server{Handler: handler{}, RTSPAddress: "127.0.0.1:18554"}
	if err := s.Start(); err != nil {
		panic(err)
	}
	defer s.Close()
	for _, u := range []string{"rtsp://127.0.0.1:18554/A", "rtsp://127.0.0.1:18554/%41", "rtsp://127.0.0.1:18554/a%2Fb", "rtsp://127.0.0.1:18554/a%20b"} {
		desc := &description.Session{Medias: []*description.Media{{Type: description.MediaTypeVideo, Formats: []format.Format{&format.H264{PayloadTyp: 96, PacketizationMode: 1}}}}}
		c := &gortsplib.Client{}
		err := c.StartRecording(u, desc)
		fmt.Printf("publish to %-34s -> %v\n", u, err)
		c.Close()
	}
}
