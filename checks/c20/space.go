package main

import (
	"fmt"
	"strings"
)

// ---------------------------------------------------------------- the URL space (finite menus)

type segT struct{ Raw, Dec, Feat string }

// path segments: raw form on the wire, decoded form, feature name ("" = plain)
var segMenu = []segT{
	{"a", "a", ""},
	{"a%20b", "a b", "space"},
	{"a=b", "a=b", "eq"},
	{"a&b", "a&b", "amp"},
	{"trackID=5", "trackID=5", "seg-trackid"},
	{"%41", "A", "percent-41"}, // over-escaped 'A'
	{"a%2Fb", "a/b", "percent-2F"},
	{"%C3%BC", "ü", "utf8"},
	{"a@b", "a@b", "at-sign"},
	// escaped reserved characters: decoding them too early turns the rest of the path into a query / fragment
	{"a%3Fb", "a?b", "percent-3F"},
	{"a%23b", "a#b", "percent-23"},
	{"a%25b", "a%b", "percent-25"},
}

type menuT struct{ Raw, Feat string }

var queryMenu = []menuT{
	{"", ""},
	{"x=1", "query"},
	{"x=1&y=2", "query-amp"},
	{"p=/q", "query-slash"},
	{"t=/trackID=7", "query-trackid"},
	{"a=%2F", "query-percent-2F"},
	{"u=a@b", "query-at-sign"},
	{"src=rtsp://admin@cam%3A554", "query-embedded-url"}, // a proxy-style query: "://", "@" and an escape after it
}

var authMenu = []menuT{
	{"127.0.0.1:8554", ""},
	{"[::1]:8554", "ipv6"},
	{"localhost:8554", "hostname"},
}

var userMenu = []menuT{
	{"", ""},
	{"u:p", "userinfo"},
	{"u:p%40x", "userinfo-escaped"},
}

// urlSpec is one URL of the space, as indices into the menus.
type urlSpec struct {
	Segs []int `json:"segs"`
	Q    int   `json:"q"`
	A    int   `json:"a"`
	U    int   `json:"u"`
}

// URL is the original URL exactly as a user would type it.
func (s urlSpec) URL() string {
	var sb strings.Builder
	sb.WriteString("rtsp://")
	if s.U != 0 {
		sb.WriteString(userMenu[s.U].Raw + "@")
	}
	sb.WriteString(authMenu[s.A].Raw)
	for _, i := range s.Segs {
		sb.WriteString("/" + segMenu[i].Raw)
	}
	if s.Q != 0 {
		sb.WriteString("?" + queryMenu[s.Q].Raw)
	}
	return sb.String()
}

// URLNoUser is the original URL without user-info (what may appear on a request line).
func (s urlSpec) URLNoUser() string {
	t := s
	t.U = 0
	return t.URL()
}

// Path is the path the handlers must observe: the library's convention for a plain URL (/a/b?x=1 ->
// "/a/b") is the decoded path with its leading slash; the same convention is required everywhere.
func (s urlSpec) Path() string {
	var sb strings.Builder
	for _, i := range s.Segs {
		sb.WriteString("/" + segMenu[i].Dec)
	}
	return sb.String()
}

// Query is the query the handlers must observe: the raw query string (convention for /a/b?x=1 -> "x=1").
func (s urlSpec) Query() string { return queryMenu[s.Q].Raw }

func (s urlSpec) Authority() string { return authMenu[s.A].Raw }

func (s urlSpec) key() string {
	b := make([]byte, 0, 8)
	for _, i := range s.Segs {
		b = append(b, byte('0'+i))
	}
	return string(append(b, '|', byte('0'+s.Q), byte('0'+s.A), byte('0'+s.U)))
}

// features lists the non-plain features of the URL (menu order, each once).
func (s urlSpec) features() []string {
	var out []string
	for mi, m := range segMenu {
		if m.Feat == "" {
			continue
		}
		for _, i := range s.Segs {
			if i == mi {
				out = append(out, m.Feat)
				break
			}
		}
	}
	if len(s.Segs) > 1 {
		out = append(out, "multiseg")
	}
	if s.Q != 0 {
		out = append(out, queryMenu[s.Q].Feat)
	}
	if s.A != 0 {
		out = append(out, authMenu[s.A].Feat)
	}
	if s.U != 0 {
		out = append(out, userMenu[s.U].Feat)
	}
	return out
}

func classOf(feats []string) string {
	if len(feats) == 0 {
		return "plain"
	}
	return strings.Join(feats, "+")
}

// simpler lists the URLs of the space that have one feature less / weakened: every segment kind replaced
// by the plain segment, one segment removed, special query -> x=1 -> none, authority -> IPv4,
// user-info escaped -> plain -> none. The space is closed under these steps in both tiers.
func (s urlSpec) simpler() []urlSpec {
	var out []urlSpec
	cp := func() urlSpec { t := s; t.Segs = append([]int{}, s.Segs...); return t }
	seen := map[int]bool{}
	for _, i := range s.Segs {
		if i != 0 && !seen[i] {
			seen[i] = true
			t := cp()
			for j := range t.Segs {
				if t.Segs[j] == i {
					t.Segs[j] = 0
				}
			}
			out = append(out, t)
		}
	}
	if len(s.Segs) > 1 {
		for j := range s.Segs {
			t := cp()
			t.Segs = append(t.Segs[:j], t.Segs[j+1:]...)
			out = append(out, t)
		}
	}
	if s.Q > 1 {
		t := cp()
		t.Q = 1
		out = append(out, t)
	} else if s.Q == 1 {
		t := cp()
		t.Q = 0
		out = append(out, t)
	}
	if s.A != 0 {
		t := cp()
		t.A = 0
		out = append(out, t)
	}
	if s.U == 2 {
		t := cp()
		t.U = 1
		out = append(out, t)
	} else if s.U == 1 {
		t := cp()
		t.U = 0
		out = append(out, t)
	}
	return out
}

// enumSpecs enumerates the URL space of a tier.
func enumSpecs(thorough bool) []urlSpec {
	maxSegs, users := 2, 2
	if thorough {
		maxSegs, users = 3, 3
	}
	var paths [][]int
	var rec func(cur []int)
	rec = func(cur []int) {
		if len(cur) > 0 {
			paths = append(paths, append([]int{}, cur...))
		}
		if len(cur) == maxSegs {
			return
		}
		for i := range segMenu {
			rec(append(cur, i))
		}
	}
	rec(nil)
	var out []urlSpec
	for _, p := range paths {
		for q := range queryMenu {
			for a := range authMenu {
				for u := 0; u < users; u++ {
					out = append(out, urlSpec{Segs: p, Q: q, A: a, U: u})
				}
			}
		}
	}
	return out
}

// ---------------------------------------------------------------- end-to-end cases

type e2eCase struct {
	Spec urlSpec `json:"spec"`
	N    int     `json:"medias"`
	Flow string  `json:"flow"` // play | record
	// Back > 0 (play only): the served description has an additional back-channel media at index Back-1,
	// which the client does not ask for: the medias it sees are numbered differently from the server's
	Back int `json:"back_channel_at,omitempty"`
	// Tunnel: "" | "http" | "ws": the control connection travels inside RTSP-over-HTTP / WebSocket (the URL also
	// appears in the HTTP request lines of the tunnel)
	Tunnel string `json:"tunnel,omitempty"`
}

func (c e2eCase) key() string {
	return c.Spec.key() + string(byte('0'+c.N)) + c.Flow + string(byte('0'+c.Back)) + c.Tunnel
}

func (c e2eCase) features() []string {
	f := c.Spec.features()
	if c.N > 1 {
		f = append(f, fmt.Sprintf("medias%d", c.N))
	}
	if c.Back > 0 {
		f = append(f, "unrequested-back-channel-before-a-media")
	}
	if c.Tunnel != "" {
		f = append(f, c.Tunnel+"-tunnel")
	}
	return f
}

func (c e2eCase) simpler() []e2eCase {
	var out []e2eCase
	for _, s := range c.Spec.simpler() {
		out = append(out, e2eCase{Spec: s, N: c.N, Flow: c.Flow, Back: c.Back, Tunnel: c.Tunnel})
	}
	if c.N > 1 && c.Back == 0 {
		out = append(out, e2eCase{Spec: c.Spec, N: c.N - 1, Flow: c.Flow})
	}
	if c.Back > 0 {
		out = append(out, e2eCase{Spec: c.Spec, N: c.N, Flow: c.Flow})
	}
	if c.Tunnel != "" {
		out = append(out, e2eCase{Spec: c.Spec, N: c.N, Flow: c.Flow})
	}
	return out
}

var flows = []string{"play", "record"}

// e2eSpace enumerates part A by index arithmetic (spec-major, then media count, then flow).
type e2eSpace struct{ specs []urlSpec }

func newE2ESpace(thorough bool) *e2eSpace { return &e2eSpace{specs: enumSpecs(thorough)} }

const perSpec = 3*2 + 2 + 2

func (s *e2eSpace) Len() int { return len(s.specs) * perSpec }

func (s *e2eSpace) At(i int) e2eCase {
	if j := i % perSpec; j >= 8 {
		return e2eCase{Spec: s.specs[i/perSpec], N: 1, Flow: "play", Tunnel: []string{"http", "ws"}[j-8]}
	} else if j >= 6 {
		return e2eCase{Spec: s.specs[i/perSpec], N: 2, Flow: "play", Back: j - 5}
	}
	i = i/perSpec*6 + i%perSpec
	f := i % len(flows)
	i /= len(flows)
	n := i%3 + 1
	return e2eCase{Spec: s.specs[i/3], N: n, Flow: flows[f]}
}

// setupOrder is the (non-identity for n>1) order in which the medias are set up.
func setupOrder(n int) []int {
	switch n {
	case 1:
		return []int{0}
	case 2:
		return []int{1, 0}
	}
	return []int{2, 0, 1}
}
