package main

import (
	"fmt"
	"github.com/bluenviron/gortsplib/v5/pkg/format"
	"net"
	"reflect"
	"regexp"
	"runtime"
	"strings"
	"sync"

	"github.com/bluenviron/gortsplib/v5"
	"github.com/bluenviron/gortsplib/v5/pkg/base"
	"github.com/bluenviron/gortsplib/v5/pkg/description"

	"verif/internal/sysx"
)

// failT is one oracle failure of one execution.
type failT struct {
	Step string `json:"step"` // parse describe announce setup play record pause teardown wire
	Kind string `json:"kind"` // path-mismatch query-mismatch wrong-media media-not-found ...
	Msg  string `json:"msg"`
}

func (f *failT) group(flow string) string {
	if f.Step == "wire" {
		return "wire/" + f.Kind
	}
	return flow + "/" + f.Step + "/" + f.Kind
}

type e2eResult struct {
	Fail   *failT   `json:"fail,omitempty"`
	Shapes []string `json:"shapes"` // request lines seen on the wire, original URL abstracted to U
	Steps  int      `json:"steps"`  // handler callbacks checked
	Lines  int      `json:"lines"`  // request lines checked for user-info
}

var kebabRe = regexp.MustCompile(`([a-z0-9])([A-Z])`)

// errKind names a failure after the error type the server (or client) reported.
func errKind(err error) string {
	if err == nil {
		return "error"
	}
	t := reflect.TypeOf(err)
	for t.Kind() == reflect.Ptr {
		t = t.Elem()
	}
	n := t.Name()
	n = strings.TrimPrefix(n, "ErrServer")
	n = strings.TrimPrefix(n, "ErrClient")
	if n == "" {
		return "error"
	}
	return strings.ToLower(kebabRe.ReplaceAllString(n, "$1-$2"))
}

// waitFor waits for an observable event: first by yielding the processor to the library's goroutines
// (no kernel sleep, so a loaded machine does not slow the common case down), then with sysx.WaitFor
// (hang detector, sysx.HangLimit).
func waitFor(cond func() bool) bool {
	for i := 0; i < 2000; i++ {
		if cond() {
			return true
		}
		runtime.Gosched()
	}
	return sysx.WaitFor(cond)
}

var reqLineRe = regexp.MustCompile(`(?m)^([A-Z_]+) (\S+) RTSP/1\.0\r$`)

// runE2E performs one execution: fresh environment, server, client; the whole flow; everything closed.
func runE2E(c e2eCase) (res e2eResult) {
	defer func() {
		if r := recover(); r != nil {
			res.Fail = &failT{Step: "any", Kind: "panic", Msg: fmt.Sprint("panic: ", r)}
		}
	}()
	spec := c.Spec
	wantPath, wantQuery := spec.Path(), spec.Query()

	env := sysx.NewEnv()
	var wmu sync.Mutex
	var c2s []byte
	env.Net.Tap = func(kind string, _ net.Addr, dst net.Addr, data []byte) {
		if ta, ok := dst.(*net.TCPAddr); ok && kind == "tcp" && ta.Port == 8554 {
			wmu.Lock()
			c2s = append(c2s, data...)
			wmu.Unlock()
		}
	}
	served := sysx.DefaultDesc(c.N)
	if c.Back > 0 {
		bc := &description.Media{Type: description.MediaTypeAudio, IsBackChannel: true, Formats: []format.Format{&format.G711{PayloadTyp: 8, MULaw: false, SampleRate: 8000, ChannelCount: 1}}}
		at := c.Back - 1
		served.Medias = append(served.Medias[:at:at], append([]*description.Media{bc}, served.Medias[at:]...)...)
	}
	srv, app, err := env.StartServer(sysx.ServerOpts{Desc: served, NoStream: c.Flow == "record"})
	if err != nil {
		panic(fmt.Sprint("harness: server start: ", err))
	}
	defer func() {
		if app.Stream != nil {
			app.Stream.Close()
		}
		srv.Close()
	}()
	proto := gortsplib.ProtocolTCP
	cl := env.NewClient(func(cl *gortsplib.Client) {
		cl.Host = spec.Authority()
		cl.Protocol = &proto
		switch c.Tunnel {
		case "http":
			cl.Tunnel = gortsplib.TunnelHTTP
		case "ws":
			cl.Tunnel = gortsplib.TunnelWebSocket
		}
	})
	if err := cl.Start(); err != nil {
		panic(fmt.Sprint("harness: client start: ", err))
	}
	closed := false
	defer func() {
		if !closed {
			cl.Close()
		}
	}()

	noUser := spec.URLNoUser()
	// requestLines returns the request lines the client has written so far (original URL abstracted to U)
	requestLines := func() (lines [][]string, shapes []string) {
		wmu.Lock()
		wire := string(c2s)
		wmu.Unlock()
		lines = reqLineRe.FindAllStringSubmatch(wire, -1)
		for _, l := range lines {
			shapes = append(shapes, l[1]+" "+strings.Replace(l[2], noUser, "U", 1))
		}
		return lines, shapes
	}
	fail := func(step, kind, f string, a ...any) e2eResult {
		_, res.Shapes = requestLines()
		res.Fail = &failT{Step: step, Kind: kind, Msg: fmt.Sprintf(f, a...) + fmt.Sprintf(" [request lines: %s]", strings.Join(res.Shapes, " | "))}
		return res
	}

	u, err := base.ParseURL(spec.URL())
	if err != nil {
		return fail("parse", "error", "ParseURL(%q): %v", spec.URL(), err)
	}
	if u.Path != wantPath {
		return fail("parse", "path-mismatch", "ParseURL(%q).Path = %q, want %q", spec.URL(), u.Path, wantPath)
	}
	if u.RawQuery != wantQuery {
		return fail("parse", "query-mismatch", "ParseURL(%q).RawQuery = %q, want %q", spec.URL(), u.RawQuery, wantQuery)
	}

	cursor := 0
	// callback returns the single handler callback of the wanted kind logged since the last call.
	callback := func(kind string) (*sysx.Event, string) {
		evs := env.Log.Snapshot()
		var got *sysx.Event
		n := 0
		for i := cursor; i < len(evs); i++ {
			switch evs[i].Kind {
			case "describe", "announce", "setup", "play", "record", "pause":
				n++
				e := evs[i]
				got = &e
			}
		}
		cursor = len(evs)
		if n != 1 || got.Kind != kind {
			return nil, fmt.Sprintf("%d callbacks, want exactly one %q", n, kind)
		}
		return got, ""
	}
	// serverReason waits for the server to drop the connection and names the error it reports.
	serverReason := func(cerr error) string {
		var e error
		waitFor(func() bool {
			for _, ev := range env.Log.Snapshot() {
				if ev.Kind == "conn-close" {
					e = ev.Err
					return true
				}
			}
			return false
		})
		if e != nil && errKind(e) != "terminated" {
			return errKind(e)
		}
		return errKind(cerr)
	}
	check := func(step string, cerr error) *e2eResult {
		if cerr != nil {
			r := fail(step, serverReason(cerr), "%s: client error: %v", step, cerr)
			return &r
		}
		ev, msg := callback(step)
		if ev == nil {
			r := fail(step, "no-callback", "%s: %s", step, msg)
			return &r
		}
		res.Steps++
		if ev.Path != wantPath {
			r := fail(step, "path-mismatch", "%s: handler saw path %q, original URL has %q", step, ev.Path, wantPath)
			return &r
		}
		if ev.Query != wantQuery {
			r := fail(step, "query-mismatch", "%s: handler saw query %q, original URL has %q", step, ev.Query, wantQuery)
			return &r
		}
		return nil
	}

	var baseURL *base.URL
	var clientMedias []*description.Media
	var serverMedias func(ss *gortsplib.ServerSession) []*description.Media
	if c.Flow == "play" {
		desc, _, derr := cl.Describe(u)
		if r := check("describe", derr); r != nil {
			return *r
		}
		if len(desc.Medias) != c.N {
			return fail("describe", "media-count", "description has %d medias, want %d", len(desc.Medias), c.N)
		}
		baseURL = desc.BaseURL
		clientMedias = desc.Medias
		serverMedias = func(*gortsplib.ServerSession) []*description.Media {
			// the medias the client was shown, in the server's order
			var out []*description.Media
			for _, m := range app.Stream.Desc.Medias {
				if !m.IsBackChannel {
					out = append(out, m)
				}
			}
			return out
		}
	} else {
		desc := sysx.DefaultDesc(c.N)
		_, aerr := cl.Announce(u, desc)
		if r := check("announce", aerr); r != nil {
			return *r
		}
		baseURL = u
		clientMedias = desc.Medias
		serverMedias = func(ss *gortsplib.ServerSession) []*description.Media {
			if d := ss.AnnouncedDescription(); d != nil {
				return d.Medias
			}
			return nil
		}
	}

	for i, k := range setupOrder(c.N) {
		_, serr := cl.Setup(baseURL, clientMedias[k], 0, 0)
		if serr != nil {
			return fail("setup", serverReason(serr), "SETUP #%d (media %d): client error: %v", i, k, serr)
		}
		ev, msg := callback("setup")
		if ev == nil {
			return fail("setup", "no-callback", "SETUP #%d (media %d): %s", i, k, msg)
		}
		res.Steps++
		if ev.Path != wantPath {
			return fail("setup", "path-mismatch", "SETUP #%d (media %d): handler saw path %q, original URL has %q", i, k, ev.Path, wantPath)
		}
		if ev.Query != wantQuery {
			return fail("setup", "query-mismatch", "SETUP #%d (media %d): handler saw query %q, original URL has %q", i, k, ev.Query, wantQuery)
		}
		sm := serverMedias(ev.Session)
		got := ev.Session.Medias()
		if len(got) != i+1 || len(sm) != c.N {
			return fail("setup", "wrong-media", "SETUP #%d (media %d): session has %d medias set up (server knows %d)", i, k, len(got), len(sm))
		}
		if got[i] != sm[k] {
			idx := -1
			for j := range sm {
				if sm[j] == got[i] {
					idx = j
				}
			}
			return fail("setup", "wrong-media", "SETUP #%d issued for media %d configured media %d", i, k, idx)
		}
		if got[i].Type != clientMedias[k].Type || reflect.TypeOf(got[i].Formats[0]) != reflect.TypeOf(clientMedias[k].Formats[0]) {
			return fail("setup", "wrong-media", "SETUP #%d (media %d): server media is %v/%T, client media %v/%T", i, k,
				got[i].Type, got[i].Formats[0], clientMedias[k].Type, clientMedias[k].Formats[0])
		}
	}

	if c.Flow == "play" {
		_, perr := cl.Play(nil)
		if r := check("play", perr); r != nil {
			return *r
		}
	} else {
		_, rerr := cl.Record()
		if r := check("record", rerr); r != nil {
			return *r
		}
	}
	_, perr := cl.Pause()
	if r := check("pause", perr); r != nil {
		return *r
	}

	// TEARDOWN: Close sends it without waiting for the response; the server's session-close is the event.
	cl.Close()
	closed = true
	if !waitFor(func() bool { return env.Log.Count("session-close") >= 1 }) {
		return fail("teardown", "no-session-close", "server session not closed after the client's TEARDOWN")
	}

	if c.Tunnel != "" {
		// inside a tunnel the RTSP request lines are not visible on the wire (base64 in HTTP bodies, WebSocket
		// frames): the handler-side oracle above is the whole oracle for these cases
		return res
	}
	// wire: request lines
	lines, shapes := requestLines()
	res.Shapes = shapes
	methods := map[string]int{}
	for _, l := range lines {
		method, ru := l[1], l[2]
		methods[method]++
		res.Lines++
		rest, ok := strings.CutPrefix(ru, "rtsp://")
		if !ok {
			return fail("wire", "request-line-not-rtsp-url", "request line %q", l[0])
		}
		authority, _, _ := strings.Cut(rest, "/")
		if strings.Contains(authority, "@") || (spec.U != 0 && strings.Contains(ru, userMenu[spec.U].Raw+"@")) {
			return fail("wire", "userinfo-in-request-line", "request line %q carries user-info", strings.TrimSpace(l[0]))
		}
	}
	first := "DESCRIBE"
	mid := "PLAY"
	if c.Flow == "record" {
		first, mid = "ANNOUNCE", "RECORD"
	}
	if methods[first] != 1 || methods["SETUP"] != c.N || methods[mid] != 1 || methods["PAUSE"] != 1 || methods["TEARDOWN"] != 1 {
		return fail("wire", "request-count", "request lines on the wire: %v", methods)
	}
	return res
}
