package main

import (
	"fmt"
	"strconv"
	"strings"

	"github.com/pion/sdp/v3"

	"github.com/bluenviron/gortsplib/v5"
	"github.com/bluenviron/gortsplib/v5/pkg/base"
	"github.com/bluenviron/gortsplib/v5/pkg/description"
)

// Part B: client-side control-URL resolution (description.Media.URL, client findBaseURL) composed with the
// server-side analysis (getPathAndQuery, getPathAndQueryAndTrackID, findMediaByTrackID, findMediaByURL).

var styles = []string{
	// play, styles the server itself produces or fully analyses: exact (path, query, track)
	"server",              // Content-Base = request URL + "/", control trackID=k (server_conn.go / server_stream.go)
	"relative-nocb",       // no Content-Base, control trackID=k
	"relative-cb-noslash", // Content-Base = request URL (no trailing slash), control trackID=k
	"session-control",     // session-level a=control:<request URL>/, control trackID=k
	"absolute",            // control = <request URL>/trackID=k, Content-Base as the server
	"absolute-otherhost",  // same with a foreign host in the control, no Content-Base
	"leading-slash",       // control /trackID=k, no Content-Base
	// the scheme: a control attribute is absolute when it carries EITHER RTSP scheme, whatever the connection's
	"absolute-otherscheme",        // connection rtsp://, controls rtsps://<same>/trackID=k
	"server-secure",               // connection rtsps://, otherwise as "server"
	"absolute-secure",             // connection rtsps://, controls rtsps://.../trackID=k
	"absolute-otherscheme-secure", // connection rtsps://, controls rtsp://.../trackID=k (camera behind a TLS terminator)
	// camera styles: only what is well defined
	"leading-slash-cb", // control /trackID=k, Content-Base with trailing slash: track only
	"qmark-nocb",       // control ?ctype=video, no Content-Base
	"qmark-cb",         // control ?ctype=video, Content-Base with trailing slash
	// record: the announcing client resolves, the server looks the media up by URL
	"record-lib",       // controls trackID=i (client.go prepareForAnnounce)
	"record-ffmpeg",    // controls streamid=i
	"record-gstreamer", // controls stream=i
	"record-absolute",  // controls <announce URL>/trackID=i
}

type unitCase struct {
	Spec  urlSpec `json:"spec"`
	Style string  `json:"style"`
	N     int     `json:"medias"`
	K     int     `json:"media"`
}

func (c unitCase) key() string {
	return c.Spec.key() + string([]byte{byte('0' + c.N), byte('0' + c.K)}) + c.Style
}

func (c unitCase) features() []string {
	f := c.Spec.features()
	if c.K > 0 {
		f = append(f, fmt.Sprintf("media%d", c.K))
	}
	return f
}

func (c unitCase) simpler() []unitCase {
	var out []unitCase
	for _, s := range c.Spec.simpler() {
		out = append(out, unitCase{Spec: s, Style: c.Style, N: c.N, K: c.K})
	}
	if c.N > c.K+1 {
		out = append(out, unitCase{Spec: c.Spec, Style: c.Style, N: c.N - 1, K: c.K})
	} else if c.K > 0 {
		out = append(out, unitCase{Spec: c.Spec, Style: c.Style, N: c.N - 1, K: c.K - 1})
	}
	return out
}

// onWire is what the server's request parser makes of a URL the client puts on a request line.
func onWire(u *base.URL) (*base.URL, error) {
	return base.ParseURL(u.CloneWithoutCredentials().String())
}

// runUnit evaluates one case; it returns nil or the failure (kind, message) and an outcome key.
func runUnit(c unitCase) (f *failT, outcome string) {
	defer func() {
		if r := recover(); r != nil {
			f = &failT{Step: c.Style, Kind: "panic", Msg: fmt.Sprint("panic: ", r)}
		}
	}()
	fail := func(kind, format string, a ...any) (*failT, string) {
		return &failT{Step: c.Style, Kind: kind, Msg: fmt.Sprintf(format, a...)}, ""
	}
	spec := c.Spec
	P, Q := spec.Path(), spec.Query()
	typed := spec.URL()
	style := c.Style
	if strings.HasSuffix(style, "-secure") {
		typed = "rtsps" + strings.TrimPrefix(typed, "rtsp")
		style = strings.TrimSuffix(style, "-secure")
	}
	otherScheme := func(u string) string {
		if strings.HasPrefix(u, "rtsps://") {
			return "rtsp" + strings.TrimPrefix(u, "rtsps")
		}
		return "rtsps" + strings.TrimPrefix(u, "rtsp")
	}
	up, err := base.ParseURL(typed)
	if err != nil {
		return fail("parse-error", "ParseURL(%q): %v", typed, err)
	}
	wireU, err := onWire(up)
	if err != nil {
		return fail("parse-error", "request URL of %q does not parse: %v", spec.URL(), err)
	}
	reqStr := wireU.String() // request URL as the server sees it

	medias := make([]*description.Media, c.N)
	for i := range medias {
		medias[i] = &description.Media{}
	}
	res := &base.Response{Header: base.Header{}}
	sd := &sdp.SessionDescription{}
	record := strings.HasPrefix(c.Style, "record-")
	ks := strconv.Itoa(c.K)

	switch style {
	case "server":
		res.Header["Content-Base"] = base.HeaderValue{reqStr + "/"}
		for i, m := range medias {
			m.Control = "trackID=" + strconv.Itoa(i)
		}
	case "relative-nocb":
		for i, m := range medias {
			m.Control = "trackID=" + strconv.Itoa(i)
		}
	case "relative-cb-noslash":
		res.Header["Content-Base"] = base.HeaderValue{reqStr}
		for i, m := range medias {
			m.Control = "trackID=" + strconv.Itoa(i)
		}
	case "session-control":
		sd.Attributes = append(sd.Attributes, sdp.Attribute{Key: "control", Value: reqStr + "/"})
		for i, m := range medias {
			m.Control = "trackID=" + strconv.Itoa(i)
		}
	case "absolute":
		res.Header["Content-Base"] = base.HeaderValue{reqStr + "/"}
		for i, m := range medias {
			m.Control = reqStr + "/trackID=" + strconv.Itoa(i)
		}
	case "absolute-otherscheme":
		res.Header["Content-Base"] = base.HeaderValue{reqStr + "/"}
		for i, m := range medias {
			m.Control = otherScheme(reqStr) + "/trackID=" + strconv.Itoa(i)
		}
	case "absolute-otherhost":
		for i, m := range medias {
			m.Control = strings.Replace(reqStr, spec.Authority(), "10.0.0.9:554", 1) + "/trackID=" + strconv.Itoa(i)
		}
	case "leading-slash":
		for i, m := range medias {
			m.Control = "/trackID=" + strconv.Itoa(i)
		}
	case "leading-slash-cb":
		res.Header["Content-Base"] = base.HeaderValue{reqStr + "/"}
		for i, m := range medias {
			m.Control = "/trackID=" + strconv.Itoa(i)
		}
	case "qmark-nocb":
		for i, m := range medias {
			m.Control = "?ctype=" + strconv.Itoa(i)
		}
	case "qmark-cb":
		res.Header["Content-Base"] = base.HeaderValue{reqStr + "/"}
		for i, m := range medias {
			m.Control = "?ctype=" + strconv.Itoa(i)
		}
	case "record-lib":
		for i, m := range medias {
			m.Control = "trackID=" + strconv.Itoa(i)
		}
	case "record-ffmpeg":
		for i, m := range medias {
			m.Control = "streamid=" + strconv.Itoa(i)
		}
	case "record-gstreamer":
		for i, m := range medias {
			m.Control = "stream=" + strconv.Itoa(i)
		}
	case "record-absolute":
		for i, m := range medias {
			m.Control = reqStr + "/trackID=" + strconv.Itoa(i)
		}
	default:
		panic("unknown style " + c.Style)
	}

	// client side
	baseURL := up
	if !record {
		baseURL, err = gortsplib.VerifC20FindBaseURL(sd, res, up)
		if err != nil {
			return fail("base-url-error", "findBaseURL: %v", err)
		}
		if baseURL == nil {
			return fail("nil-url", "findBaseURL returned nil")
		}
	}
	mu, err := medias[c.K].URL(baseURL)
	if err != nil {
		return fail("resolve-error", "Media.URL(%q) with control %q: %v", baseURL, medias[c.K].Control, err)
	}
	if mu == nil {
		return fail("nil-url", "Media.URL(%q) with control %q returned (nil, nil)", baseURL, medias[c.K].Control)
	}
	wm, err := onWire(mu)
	if err != nil {
		return fail("setup-url-unparsable", "SETUP URL %q does not parse on the server: %v", mu, err)
	}
	if wm.User != nil {
		return fail("userinfo-on-wire", "SETUP URL on the wire %q has user-info", wm)
	}

	// server side
	if record {
		ap, aq := gortsplib.VerifC20GetPathAndQuery(wireU, true)
		if ap != P {
			return fail("path-mismatch", "ANNOUNCE analysis of %q: path %q want %q", reqStr, ap, P)
		}
		if aq != Q {
			return fail("query-mismatch", "ANNOUNCE analysis of %q: query %q want %q", reqStr, aq, Q)
		}
		found := gortsplib.VerifC20FindMediaByURL(medias, ap, aq, wm)
		if found == nil {
			return fail("media-not-found", "findMediaByURL(path %q, query %q, SETUP URL %q) with control %q finds no media", ap, aq, wm, medias[c.K].Control)
		}
		if found != medias[c.K] {
			return fail("wrong-media", "findMediaByURL(SETUP URL %q) finds another media than #%d", wm, c.K)
		}
		// RECORD / PAUSE use the announce URL
		rp, rq := gortsplib.VerifC20GetPathAndQuery(wireU, false)
		if rp != P || rq != Q {
			return fail("path-mismatch", "RECORD analysis of %q: (%q, %q) want (%q, %q)", reqStr, rp, rq, P, Q)
		}
		return nil, "record " + strings.Replace(strings.Replace(wm.String(), reqStr, "U", 1), otherScheme(reqStr), "U'", 1)
	}

	exact := true
	switch c.Style {
	case "leading-slash-cb", "qmark-nocb", "qmark-cb":
		exact = false
	}
	if strings.HasPrefix(c.Style, "qmark") {
		// rule 1: the SETUP URL is the base URL with the control attribute appended, byte for byte
		want := baseURL.CloneWithoutCredentials().String() + medias[c.K].Control
		if wm.String() != want {
			return fail("concat-mismatch", "SETUP URL on the wire %q, base + control is %q", wm, want)
		}
		// rule 2: without a query in the original URL, the path is still the original path and the
		// control is the query
		if spec.Q == 0 {
			p, q := gortsplib.VerifC20GetPathAndQuery(wm, false)
			if p != P {
				return fail("path-mismatch", "analysis of %q: path %q want %q", wm, p, P)
			}
			if q != "ctype="+ks {
				return fail("query-mismatch", "analysis of %q: query %q want %q", wm, q, "ctype="+ks)
			}
		}
		return nil, "play " + strings.Replace(strings.Replace(wm.String(), reqStr, "U", 1), otherScheme(reqStr), "U'", 1)
	}
	p, q, t, aerr := gortsplib.VerifC20GetPathAndQueryAndTrackID(wm)
	if aerr != nil {
		return fail(errKind(aerr), "analysis of SETUP URL %q: %v", wm, aerr)
	}
	if t != ks {
		return fail("track-mismatch", "analysis of SETUP URL %q: track %q want %q", wm, t, ks)
	}
	if m := gortsplib.VerifC20FindMediaByTrackID(medias, t); m != medias[c.K] {
		return fail("wrong-media", "findMediaByTrackID(%q) is not media #%d", t, c.K)
	}
	if exact {
		if p != P {
			return fail("path-mismatch", "analysis of SETUP URL %q: path %q want %q", wm, p, P)
		}
		if q != Q {
			return fail("query-mismatch", "analysis of SETUP URL %q: query %q want %q", wm, q, Q)
		}
		if wm.Host != spec.Authority() {
			return fail("host-mismatch", "SETUP URL %q is not addressed to %q", wm, spec.Authority())
		}
		// PLAY / PAUSE / TEARDOWN use the base URL
		wb, err := onWire(baseURL)
		if err != nil {
			return fail("play-url-unparsable", "base URL %q does not parse on the server: %v", baseURL, err)
		}
		pp, pq := gortsplib.VerifC20GetPathAndQuery(wb, false)
		if pp != P {
			return fail("play-path-mismatch", "analysis of PLAY URL %q: path %q want %q", wb, pp, P)
		}
		if pq != Q {
			return fail("play-query-mismatch", "analysis of PLAY URL %q: query %q want %q", wb, pq, Q)
		}
	}
	return nil, "play " + strings.Replace(strings.Replace(wm.String(), reqStr, "U", 1), otherScheme(reqStr), "U'", 1)
}

// (media count, media index) pairs of part B; closed under unitCase.simpler.
var nkMenu = [][2]int{{1, 0}, {2, 0}, {2, 1}, {3, 2}}

// unitCasesOf lists the cases of one URL (style-major).
func unitCasesOf(s urlSpec) []unitCase {
	out := make([]unitCase, 0, len(styles)*len(nkMenu))
	for _, st := range styles {
		for _, nk := range nkMenu {
			out = append(out, unitCase{Spec: s, Style: st, N: nk[0], K: nk[1]})
		}
	}
	return out
}
