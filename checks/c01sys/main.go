// C01, write-boundary part — "no packet written after PLAY completed is missing ... over TCP-based
// transports", for the one interleaving that the serialised main part cannot produce: something else
// (the answer to a request of the same peer) is written to the connection BETWEEN two consecutive
// socket writes of the media writer. The in-memory network holds the media writer after each of its
// writes; while it is held, the peer sends a request and the harness waits (quiescence barrier) until
// the server has answered it; then the writer continues. Every write boundary of the run gets one
// injection. Real Server / ServerStream and a raw reader, and the real Client recording to a scripted
// server that sends OPTIONS requests (the client answers them from another goroutine than its writer).
//
// Oracle (property level, nothing about how the library groups its writes): the receiving side parses
// the byte stream with the library's own conn.Conn; every element must parse, the interleaved frames of
// the RTP channel must be exactly the packets written, in order, and every injected request must get
// exactly one response. Run by checks/c01 through VERIF_SYS; prints one JSON object.
package main

import (
	"bufio"
	"bytes"
	"encoding/json"
	"fmt"
	"net"
	"os"
	"strings"
	"sync"
	"sync/atomic"
	"time"

	"github.com/pion/rtp"

	"github.com/bluenviron/gortsplib/v5"
	"github.com/bluenviron/gortsplib/v5/pkg/base"
	"github.com/bluenviron/gortsplib/v5/pkg/conn"

	"verif/internal/sysx"
)

type res struct {
	Scenario   string `json:"scenario"`
	Sizes      []int  `json:"payload_sizes"`
	Written    int    `json:"packets_written"`
	Boundaries int    `json:"write_boundaries_with_injection"`
	Responses  int    `json:"responses_seen"`
	Frames     int    `json:"frames_seen"`
	Fail       string `json:"fail,omitempty"`
	Msg        string `json:"msg,omitempty"`
	Err        string `json:"harness_error,omitempty"`
}

var u = sysx.MustURL("rtsp://127.0.0.1:8554/stream")

func pkt(i, size int) *rtp.Packet {
	p := make([]byte, size)
	for j := range p {
		p[j] = byte(i*31 + j*7 + 1)
	}
	return &rtp.Packet{Header: rtp.Header{Version: 2, PayloadType: 96, SequenceNumber: uint16(65530 + i), Timestamp: uint32(i) * 3000, SSRC: 0x11}, Payload: p}
}

// injector serialises "hold the writer, let the peer's request be answered, release the writer".
type injector struct {
	active atomic.Bool
	req    chan struct{}
	done   chan struct{}
	n      atomic.Int64
	limit  int64
}

func newInjector(limit int, inject func(i int)) *injector {
	in := &injector{req: make(chan struct{}), done: make(chan struct{}), limit: int64(limit)}
	go func() {
		i := 0
		for range in.req {
			inject(i)
			i++
			sysx.Settle() // the other side's goroutines have read the request and written the answer
			in.done <- struct{}{}
		}
	}()
	return in
}

// quiet waits until the held writer has been released and the library is quiescent again.
func (in *injector) quiet() {
	for {
		sysx.Settle()
		if !in.active.Load() {
			sysx.Settle()
			if !in.active.Load() {
				return
			}
		}
		time.Sleep(200 * time.Microsecond)
	}
}

// hold is called from the network's AfterWrite hook in the media writer's goroutine.
func (in *injector) hold() {
	if in.n.Load() >= in.limit || !in.active.CompareAndSwap(false, true) {
		return
	}
	in.n.Add(1)
	in.req <- struct{}{}
	<-in.done
	in.active.Store(false)
}

func serverPlay(sizes []int) (r res) {
	r = res{Scenario: "server-play-tcp", Sizes: sizes}
	env := sysx.NewEnv()
	srv, app, err := env.StartServer(sysx.ServerOpts{Handlers: "all", Tweak: func(s *gortsplib.Server) { s.WriteTimeout = time.Hour }})
	if err != nil {
		r.Err = err.Error()
		return
	}
	defer srv.Close()
	defer app.Stream.Close()
	peer, err := env.Dial(nil)
	if err != nil {
		r.Err = err.Error()
		return
	}
	defer peer.Close()
	rs, err := peer.Do(&base.Request{Method: base.Setup, URL: sysx.MustURL("rtsp://127.0.0.1:8554/stream/trackID=0"), Header: base.Header{"Transport": base.HeaderValue{"RTP/AVP/TCP;unicast;interleaved=0-1"}}})
	if err != nil || rs.StatusCode != base.StatusOK {
		r.Err = fmt.Sprint("setup: ", rs, err)
		return
	}
	id := rs.Header["Session"][0]
	if i := strings.IndexByte(id, ';'); i > 0 {
		id = id[:i]
	}
	rs, err = peer.Do(&base.Request{Method: base.Play, URL: u, Header: base.Header{"Session": base.HeaderValue{id}}})
	if err != nil || rs.StatusCode != base.StatusOK {
		r.Err = fmt.Sprint("play: ", rs, err)
		return
	}
	sysx.Settle()
	in := newInjector(4*len(sizes)+8, func(i int) {
		peer.SendRaw([]byte(fmt.Sprintf("GET_PARAMETER rtsp://127.0.0.1:8554/stream RTSP/1.0\r\nCSeq: %d\r\nSession: %s\r\n\r\n", 1000+i, id))) //nolint:errcheck
	})
	env.Net.AfterWrite = func(src, _ net.Addr, data []byte) {
		if strings.HasSuffix(src.String(), ":8554") && !bytes.HasPrefix(data, []byte("RTSP/")) {
			in.hold()
		}
	}
	var want [][]byte
	for i, sz := range sizes {
		p := pkt(i, sz)
		want = append(want, p.Payload)
		if err := app.Stream.WritePacketRTP(app.Stream.Desc.Medias[0], p); err != nil {
			r.Err = "write: " + err.Error()
			return
		}
		r.Written++
		in.quiet()
	}
	env.Net.AfterWrite = nil
	r.Boundaries = int(in.n.Load())
	judge(&r, peer.ReadAny, want, 0, r.Boundaries, func() { peer.Close() })
	return
}

// judge reads the receiving side: frames of the RTP channel = want in order, `responses` answers.
func judge(r *res, read func() (any, error), want [][]byte, channel int, responses int, abort func()) {
	type item struct {
		what any
		err  error
	}
	ch := make(chan item, 1024)
	go func() {
		for {
			w, err := read()
			if f, ok := w.(*base.InterleavedFrame); ok {
				w = &base.InterleavedFrame{Channel: f.Channel, Payload: append([]byte{}, f.Payload...)}
			}
			ch <- item{w, err}
			if err != nil {
				return
			}
		}
	}()
	next := 0
	for next < len(want) || r.Responses < responses {
		var it item
		select {
		case it = <-ch:
		case <-time.After(sysx.HangLimit):
			abort()
			r.Fail, r.Msg = "packet-missing", fmt.Sprintf("after %d of %d packets and %d of %d answers nothing more arrives", next, len(want), r.Responses, responses)
			return
		}
		if it.err != nil {
			r.Fail, r.Msg = "stream-corrupted", fmt.Sprintf("the receiving side cannot parse the byte stream after %d packets and %d answers: %v", next, r.Responses, it.err)
			return
		}
		switch w := it.what.(type) {
		case *base.Response:
			r.Responses++
			if w.StatusCode != base.StatusOK {
				r.Fail, r.Msg = "stream-corrupted", fmt.Sprintf("answer %d has status %d", r.Responses, w.StatusCode)
				return
			}
		case *base.InterleavedFrame:
			if w.Channel != channel {
				continue // RTCP
			}
			r.Frames++
			var p rtp.Packet
			if err := p.Unmarshal(w.Payload); err != nil || next >= len(want) || !bytes.Equal(p.Payload, want[next]) {
				r.Fail, r.Msg = "packet-altered", fmt.Sprintf("frame %d on the RTP channel is not packet %d as written (%d bytes: % x...)", r.Frames, next, len(w.Payload), w.Payload[:min(len(w.Payload), 24)])
				return
			}
			next++
		}
	}
}

const recSDPPrefix = "RTSP/1.0 200 OK\r\n"

// clientRecord: the real Client records over TCP to a scripted server; at every write boundary of the
// client's media writer the server sends an OPTIONS request, which the client answers from its own routine.
func clientRecord(sizes []int) (r res) {
	r = res{Scenario: "client-record-tcp", Sizes: sizes}
	env := sysx.NewEnv()
	ln, err := env.Net.Listen("tcp", "127.0.0.1:8554")
	if err != nil {
		r.Err = err.Error()
		return
	}
	defer ln.Close()
	var smu sync.Mutex
	var sconn net.Conn
	var sc *conn.Conn
	recording := make(chan struct{})
	go func() {
		nc, err := ln.Accept()
		if err != nil {
			return
		}
		smu.Lock()
		sconn = nc
		sc = conn.NewConn(bufio.NewReader(nc), nc)
		smu.Unlock()
		for {
			what, err := sc.Read()
			if err != nil {
				return
			}
			req, ok := what.(*base.Request)
			if !ok {
				continue
			}
			rs := &base.Response{StatusCode: base.StatusOK, Header: base.Header{"CSeq": req.Header["CSeq"]}}
			switch req.Method {
			case base.Options:
				rs.Header["Public"] = base.HeaderValue{"ANNOUNCE, SETUP, RECORD, TEARDOWN"}
			case base.Setup:
				rs.Header["Transport"] = base.HeaderValue{"RTP/AVP/TCP;unicast;interleaved=0-1;mode=record"}
				rs.Header["Session"] = base.HeaderValue{"ABCD1234"}
			}
			smu.Lock()
			err = sc.WriteResponse(rs)
			smu.Unlock()
			if err != nil {
				return
			}
			if req.Method == base.Record {
				close(recording)
				return // from here on the judge reads the connection
			}
		}
	}()
	proto := gortsplib.ProtocolTCP
	cli := env.NewClient(func(c *gortsplib.Client) { c.Protocol = &proto; c.WriteTimeout = time.Hour })
	defer cli.Close()
	if err = cli.Start(); err != nil {
		r.Err = err.Error()
		return
	}
	d := sysx.DefaultDesc(1)
	if _, err = cli.Announce(u, d); err != nil {
		r.Err = "announce: " + err.Error()
		return
	}
	if err = cli.SetupAll(u, d.Medias); err != nil {
		r.Err = "setup: " + err.Error()
		return
	}
	if _, err = cli.Record(); err != nil {
		r.Err = "record: " + err.Error()
		return
	}
	select {
	case <-recording:
	case <-time.After(sysx.HangLimit):
		r.Err = "RECORD not seen by the scripted server"
		return
	}
	sysx.Settle()
	in := newInjector(4*len(sizes)+8, func(i int) {
		smu.Lock()
		defer smu.Unlock()
		sconn.Write([]byte(fmt.Sprintf("OPTIONS rtsp://127.0.0.1:8554/stream RTSP/1.0\r\nCSeq: %d\r\n\r\n", 1000+i))) //nolint:errcheck
	})
	env.Net.AfterWrite = func(_, dst net.Addr, data []byte) {
		if strings.HasSuffix(dst.String(), ":8554") && !bytes.HasPrefix(data, []byte("RTSP/")) {
			in.hold()
		}
	}
	var want [][]byte
	for i, sz := range sizes {
		p := pkt(i, sz)
		want = append(want, p.Payload)
		if err := cli.WritePacketRTP(d.Medias[0], p); err != nil {
			r.Err = "write: " + err.Error()
			return
		}
		r.Written++
		in.quiet()
	}
	env.Net.AfterWrite = nil
	r.Boundaries = int(in.n.Load())
	judge(&r, func() (any, error) { return sc.Read() }, want, 0, r.Boundaries, func() { sconn.Close() })
	smu.Lock()
	sconn.Close()
	smu.Unlock()
	return
}

func main() {
	var out struct {
		Cases []res `json:"cases"`
	}
	for _, sizes := range [][]int{{1, 100, 1400, 1, 1400, 100}, {1400, 1400, 1400, 1400}, {1, 1, 1, 1, 1, 1, 1, 1}} {
		out.Cases = append(out.Cases, serverPlay(sizes), clientRecord(sizes))
	}
	json.NewEncoder(os.Stdout).Encode(out) //nolint:errcheck
}
