// Package apx re-exports internal packages of the library to the verification harnesses (it is a
// virtual package inside the library's module, added by the build overlay only).
package apx

import (
	"github.com/bluenviron/gortsplib/v5/internal/asyncprocessor"
)

// Processor is internal/asyncprocessor.Processor.
type Processor = asyncprocessor.Processor
