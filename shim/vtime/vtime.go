// Package vtime is the virtual clock (engine E4). Library files are compiled with their "time" import
// swapped for this package (generated copies, build overlay), so Now, timers, tickers and Sleep of the
// library - and the deadlines it hands to connections - live on a clock that only the harness moves.
// While no virtual clock is installed every function falls through to package time.
package vtime

import (
	"container/heap"
	"context"
	"runtime"
	"sync"
	"time"
)

// Aliases so that every method and constant of package time keeps working.
type (
	Duration = time.Duration
	Time     = time.Time
	Month    = time.Month
	Weekday  = time.Weekday
	Location = time.Location
)

// Constants of package time.
const (
	Nanosecond  = time.Nanosecond
	Microsecond = time.Microsecond
	Millisecond = time.Millisecond
	Second      = time.Second
	Minute      = time.Minute
	Hour        = time.Hour
	RFC3339     = time.RFC3339
	RFC1123     = time.RFC1123
)

// UTC is time.UTC.
var UTC = time.UTC

// Local is time.Local.
var Local = time.Local

// Unix is time.Unix.
func Unix(sec, nsec int64) Time { return time.Unix(sec, nsec) }

// Date is time.Date.
func Date(y int, m Month, d, h, mi, s, ns int, loc *Location) Time {
	return time.Date(y, m, d, h, mi, s, ns, loc)
}

// ParseDuration is time.ParseDuration.
func ParseDuration(s string) (Duration, error) { return time.ParseDuration(s) }

// Parse is time.Parse.
func Parse(layout, value string) (Time, error) { return time.Parse(layout, value) }

type entry struct {
	when   time.Time
	seq    int64
	period time.Duration
	c      chan time.Time
	f      func()
	index  int // heap index, -1 when not scheduled
	origin string
}

type timerHeap []*entry

func (h timerHeap) Len() int { return len(h) }
func (h timerHeap) Less(i, j int) bool {
	if h[i].when.Equal(h[j].when) {
		return h[i].seq < h[j].seq
	}
	return h[i].when.Before(h[j].when)
}
func (h timerHeap) Swap(i, j int) { h[i], h[j] = h[j], h[i]; h[i].index = i; h[j].index = j }
func (h *timerHeap) Push(x any)   { e := x.(*entry); e.index = len(*h); *h = append(*h, e) }
func (h *timerHeap) Pop() any {
	old := *h
	e := old[len(old)-1]
	e.index = -1
	*h = old[:len(old)-1]
	return e
}

type clock struct {
	mu     sync.Mutex
	now    time.Time
	timers timerHeap
	seq    int64
	settle time.Duration
}

var (
	gmu sync.RWMutex
	clk *clock
)

func cur() *clock {
	gmu.RLock()
	defer gmu.RUnlock()
	return clk
}

// Install starts virtual time at start. settle is a short real pause taken after every instant at
// which timers fired, to let the goroutines they woke run (it is not an oracle: no verdict depends
// on it, the harness synchronises on observable events).
func Install(start time.Time, settle time.Duration) {
	gmu.Lock()
	clk = &clock{now: start, settle: settle}
	gmu.Unlock()
}

// Uninstall returns to real time. Pending virtual timers never fire.
func Uninstall() {
	gmu.Lock()
	clk = nil
	gmu.Unlock()
}

// Virtual reports whether a virtual clock is installed.
func Virtual() bool { return cur() != nil }

// Now is the current (virtual) time.
func Now() Time {
	c := cur()
	if c == nil {
		return time.Now()
	}
	c.mu.Lock()
	defer c.mu.Unlock()
	return c.now
}

// Since is Now().Sub(t).
func Since(t Time) Duration { return Now().Sub(t) }

// Until is t.Sub(Now()).
func Until(t Time) Duration { return t.Sub(Now()) }

// Debug, when true, records the creator of every timer (see PendingOrigins).
var Debug bool

func (c *clock) add(e *entry, d time.Duration) {
	if Debug {
		buf := make([]byte, 2048)
		e.origin = string(buf[:runtime.Stack(buf, false)])
	}
	c.seq++
	e.seq = c.seq
	e.when = c.now.Add(d)
	heap.Push(&c.timers, e)
}

func (c *clock) remove(e *entry) bool {
	if e.index >= 0 {
		heap.Remove(&c.timers, e.index)
		e.index = -1
		return true
	}
	return false
}

// Pending returns the number of armed virtual timers and the earliest deadline.
func Pending() (int, Time) {
	c := cur()
	if c == nil {
		return 0, Time{}
	}
	c.mu.Lock()
	defer c.mu.Unlock()
	if len(c.timers) == 0 {
		return 0, Time{}
	}
	return len(c.timers), c.timers[0].when
}

// PendingOrigins returns the creation stacks of the pending timers (Debug must be on).
func PendingOrigins() []string {
	c := cur()
	if c == nil {
		return nil
	}
	c.mu.Lock()
	defer c.mu.Unlock()
	var out []string
	for _, e := range c.timers {
		out = append(out, e.when.String()+"\n"+e.origin)
	}
	return out
}

// Advance moves virtual time forward by d, firing every timer that falls due, in deadline order.
func Advance(d Duration) {
	c := cur()
	if c == nil {
		return
	}
	c.mu.Lock()
	target := c.now.Add(d)
	for len(c.timers) > 0 && !c.timers[0].when.After(target) {
		inst := c.timers[0].when
		if inst.After(c.now) {
			c.now = inst
		}
		var fs []func()
		for len(c.timers) > 0 && !c.timers[0].when.After(inst) {
			e := heap.Pop(&c.timers).(*entry)
			if e.c != nil {
				select {
				case e.c <- c.now:
				default:
				}
			}
			if e.f != nil {
				fs = append(fs, e.f)
			}
			if e.period > 0 {
				c.seq++
				e.seq = c.seq
				e.when = inst.Add(e.period)
				heap.Push(&c.timers, e)
			}
		}
		c.mu.Unlock()
		for _, f := range fs {
			go f()
		}
		if c.settle > 0 {
			time.Sleep(c.settle)
		}
		c.mu.Lock()
	}
	c.now = target
	c.mu.Unlock()
}

// AdvanceNext moves virtual time to the earliest pending timer if that lies within max (firing every
// timer due at that instant) and reports how far it moved and whether timers fired; with no timer
// within max it moves by max. Together with a quiescence barrier after each firing instant this turns
// the free-running system into a discrete-event simulation: time only moves when nothing is runnable.
func AdvanceNext(max Duration) (Duration, bool) {
	c := cur()
	if c == nil || max <= 0 {
		return max, false
	}
	c.mu.Lock()
	if len(c.timers) == 0 || c.timers[0].when.After(c.now.Add(max)) {
		c.now = c.now.Add(max)
		c.mu.Unlock()
		return max, false
	}
	inst := c.timers[0].when
	moved := Duration(0)
	if inst.After(c.now) {
		moved = inst.Sub(c.now)
		c.now = inst
	}
	var fs []func()
	for len(c.timers) > 0 && !c.timers[0].when.After(inst) {
		e := heap.Pop(&c.timers).(*entry)
		if e.c != nil {
			select {
			case e.c <- c.now:
			default:
			}
		}
		if e.f != nil {
			fs = append(fs, e.f)
		}
		if e.period > 0 {
			c.seq++
			e.seq = c.seq
			e.when = inst.Add(e.period)
			heap.Push(&c.timers, e)
		}
	}
	c.mu.Unlock()
	for _, f := range fs {
		go f()
	}
	return moved, true
}

// Timer mirrors time.Timer.
type Timer struct {
	C  <-chan Time
	e  *entry
	c  *clock
	rt *time.Timer
}

// NewTimer mirrors time.NewTimer.
func NewTimer(d Duration) *Timer {
	c := cur()
	if c == nil {
		rt := time.NewTimer(d)
		return &Timer{C: rt.C, rt: rt}
	}
	ch := make(chan time.Time, 1)
	t := &Timer{C: ch, c: c, e: &entry{c: ch, index: -1}}
	c.mu.Lock()
	if d <= 0 {
		ch <- c.now
	} else {
		c.add(t.e, d)
	}
	c.mu.Unlock()
	return t
}

// AfterFunc mirrors time.AfterFunc.
func AfterFunc(d Duration, f func()) *Timer {
	c := cur()
	if c == nil {
		return &Timer{rt: time.AfterFunc(d, f)}
	}
	t := &Timer{c: c, e: &entry{f: f, index: -1}}
	c.mu.Lock()
	if d <= 0 {
		go f()
	} else {
		c.add(t.e, d)
	}
	c.mu.Unlock()
	return t
}

// Stop mirrors (*time.Timer).Stop.
func (t *Timer) Stop() bool {
	if t.rt != nil {
		return t.rt.Stop()
	}
	t.c.mu.Lock()
	defer t.c.mu.Unlock()
	return t.c.remove(t.e)
}

// Reset mirrors (*time.Timer).Reset.
func (t *Timer) Reset(d Duration) bool {
	if t.rt != nil {
		return t.rt.Reset(d)
	}
	t.c.mu.Lock()
	defer t.c.mu.Unlock()
	was := t.c.remove(t.e)
	if d <= 0 {
		if t.e.c != nil {
			select {
			case t.e.c <- t.c.now:
			default:
			}
		}
		if t.e.f != nil {
			go t.e.f()
		}
	} else {
		t.c.add(t.e, d)
	}
	return was
}

// After mirrors time.After.
func After(d Duration) <-chan Time { return NewTimer(d).C }

// Sleep mirrors time.Sleep.
func Sleep(d Duration) {
	if cur() == nil {
		time.Sleep(d)
		return
	}
	<-NewTimer(d).C
}

// Ticker mirrors time.Ticker.
type Ticker struct {
	C  <-chan Time
	e  *entry
	c  *clock
	rt *time.Ticker
}

// NewTicker mirrors time.NewTicker.
func NewTicker(d Duration) *Ticker {
	c := cur()
	if c == nil {
		rt := time.NewTicker(d)
		return &Ticker{C: rt.C, rt: rt}
	}
	if d <= 0 {
		panic("non-positive interval for NewTicker")
	}
	ch := make(chan time.Time, 1)
	t := &Ticker{C: ch, c: c, e: &entry{c: ch, period: d, index: -1}}
	c.mu.Lock()
	c.add(t.e, d)
	c.mu.Unlock()
	return t
}

// Stop mirrors (*time.Ticker).Stop.
func (t *Ticker) Stop() {
	if t.rt != nil {
		t.rt.Stop()
		return
	}
	t.c.mu.Lock()
	t.c.remove(t.e)
	t.c.mu.Unlock()
}

// Reset mirrors (*time.Ticker).Reset.
func (t *Ticker) Reset(d Duration) {
	if t.rt != nil {
		t.rt.Reset(d)
		return
	}
	t.c.mu.Lock()
	t.c.remove(t.e)
	t.e.period = d
	t.c.add(t.e, d)
	t.c.mu.Unlock()
}

// ---------------------------------------------------------------- contexts with virtual deadlines

type deadlineCtx struct {
	context.Context
	deadline Time
	mu       sync.Mutex
	expired  bool
}

func (c *deadlineCtx) Deadline() (Time, bool) { return c.deadline, true }

func (c *deadlineCtx) Err() error {
	c.mu.Lock()
	defer c.mu.Unlock()
	if c.expired {
		return context.DeadlineExceeded
	}
	return c.Context.Err()
}

// ContextWithDeadline is context.WithDeadline on the virtual clock (the real one when none is installed).
func ContextWithDeadline(parent context.Context, d Time) (context.Context, context.CancelFunc) {
	if !Virtual() {
		return context.WithDeadline(parent, d)
	}
	inner, cancel := context.WithCancel(parent)
	c := &deadlineCtx{Context: inner, deadline: d}
	t := AfterFunc(d.Sub(Now()), func() {
		c.mu.Lock()
		c.expired = inner.Err() == nil
		c.mu.Unlock()
		cancel()
	})
	return c, func() { t.Stop(); cancel() }
}

// ContextWithTimeout is context.WithTimeout on the virtual clock.
func ContextWithTimeout(parent context.Context, d Duration) (context.Context, context.CancelFunc) {
	if !Virtual() {
		return context.WithTimeout(parent, d)
	}
	return ContextWithDeadline(parent, Now().Add(d))
}
