// Package vsched is the controlled cooperative scheduler (engine E2) and the sync/channel shim that
// puts library code under it. It is injected into the library's module as a *virtual package* by the
// build overlay (github.com/bluenviron/gortsplib/v5/pkg/zverif/vsched); library files are compiled
// against it through generated copies whose "sync" import is swapped and whose go statements and
// channel operations are rewritten (tools/rewrite).
//
// Exactly one logical thread runs at any time. Every synchronisation operation is a scheduling
// point: the running thread publishes the operation it is about to perform, the scheduler computes
// which threads are enabled (a thread blocked on a held lock, an unsignalled condition or an empty
// channel is not offered), asks the explorer which one runs next, and hands over the baton. An
// execution is therefore a function of the choice sequence alone.
package vsched

import (
	"fmt"
	"reflect"
	"runtime"
	"sort"
	gosync "sync"
)

// Locker mirrors sync.Locker.
type Locker interface {
	Lock()
	Unlock()
}

type thread struct {
	id      int
	name    string
	wake    chan struct{}
	done    bool
	enabled func() bool // nil = runnable
	what    string      // description of the pending operation
	started bool
	fn      func()
}

// Point is one scheduling decision of an execution.
type Point struct {
	Enabled []int  // canonical order: running thread first if still enabled, then ascending ids
	Running int    // id of the thread that was running (-1 if it finished or blocked)
	Chosen  int    // index into Enabled
	What    string // pending operation of the chosen thread
}

// Result of one execution.
type Result struct {
	Points     []Point
	Deadlock   bool     // no enabled thread although some thread has not finished and is not quiescent-by-design
	Blocked    []string // threads still blocked at the end (name: operation)
	Steps      int
	Diverged   string // non-empty: the prefix could not be replayed (nondeterminism) - hard error
	Panic      any
	PanicStack string
}

// Sched is one execution's scheduler.
type Sched struct {
	mu      gosync.Mutex
	threads []*thread
	cur     *thread
	prefix  []int
	res     *Result
	step    int
	aborted bool
	finish  chan struct{}
	maxStep int
	chans   map[uintptr]*chanState
	live    gosync.WaitGroup // goroutines of this execution that have not returned yet
}

var active *Sched // the scheduler of the execution in progress (one at a time per process)

// Step returns the logical clock (number of scheduling points passed); used as history timestamps.
func Step() int {
	if active == nil {
		return 0
	}
	return active.step
}

// ThreadID returns the id of the running logical thread.
func ThreadID() int {
	if active == nil || active.cur == nil {
		return -1
	}
	return active.cur.id
}

type abortSignal struct{}

// Run executes body as thread 0 under a fresh scheduler, replaying prefix and then always taking
// choice 0 (keep running the current thread when possible).
func Run(prefix []int, maxSteps int, body func()) *Result {
	s := &Sched{prefix: prefix, res: &Result{}, finish: make(chan struct{}), maxStep: maxSteps, chans: map[uintptr]*chanState{}}
	active = s
	t0 := &thread{id: 0, name: "main", wake: make(chan struct{}, 1), started: true}
	s.threads = []*thread{t0}
	s.cur = t0
	s.live.Add(1)
	go func() {
		defer s.live.Done()
		defer s.threadExit(t0)
		body()
	}()
	<-s.finish
	// release every goroutine that is still parked and wait until all of them have unwound, so that
	// nothing of this execution can touch the next one
	s.aborted = true
	for _, t := range s.threads {
		if !t.done {
			s.res.Blocked = append(s.res.Blocked, fmt.Sprintf("%s: %s", t.name, t.what))
			if t.started {
				select {
				case t.wake <- struct{}{}:
				default:
				}
			}
		}
	}
	s.live.Wait()
	active = nil
	s.res.Steps = s.step
	return s.res
}

func (s *Sched) threadExit(t *thread) {
	if r := recover(); r != nil {
		if _, ok := r.(abortSignal); !ok {
			s.mu.Lock()
			if s.res.Panic == nil {
				s.res.Panic = r
				buf := make([]byte, 4096)
				s.res.PanicStack = string(buf[:runtime.Stack(buf, false)])
			}
			s.mu.Unlock()
		}
	}
	if s.aborted {
		return
	}
	t.done = true
	t.what = "finished"
	s.schedule(t, false)
}

// schedule is called by the running thread t (which is either at a scheduling point, or has
// finished): pick the next thread and hand over.
func (s *Sched) schedule(t *thread, wait bool) {
	s.step++
	var en []int
	selfEnabled := !t.done && (t.enabled == nil || t.enabled())
	if selfEnabled {
		en = append(en, t.id)
	}
	for _, o := range s.threads {
		if o == t || o.done {
			continue
		}
		if o.enabled == nil || o.enabled() {
			en = append(en, o.id)
		}
	}
	if len(en) == 0 || (s.maxStep > 0 && s.step > s.maxStep) {
		// quiescent: either everything finished, or the remaining threads are blocked
		for _, o := range s.threads {
			if !o.done {
				s.res.Deadlock = true
			}
		}
		if len(en) != 0 {
			s.res.Diverged = fmt.Sprintf("step budget %d exhausted (livelock?)", s.maxStep)
		}
		close(s.finish)
		if !t.done {
			<-t.wake
			panic(abortSignal{})
		}
		return
	}
	choice := 0
	if len(en) > 1 {
		k := len(s.res.Points)
		if k < len(s.prefix) {
			choice = s.prefix[k]
			if choice >= len(en) {
				s.res.Diverged = fmt.Sprintf("point %d: replayed choice %d but only %d threads enabled", k, choice, len(en))
				close(s.finish)
				if !t.done {
					<-t.wake
					panic(abortSignal{})
				}
				return
			}
		}
		run := -1
		if selfEnabled {
			run = t.id
		}
		s.res.Points = append(s.res.Points, Point{Enabled: en, Running: run, Chosen: choice, What: s.threads[en[choice]].what})
	}
	next := s.threads[en[choice]]
	if next == t {
		return
	}
	s.cur = next
	if !next.started {
		next.started = true
		s.live.Add(1)
		go func() {
			defer s.live.Done()
			defer s.threadExit(next)
			next.fn()
		}()
	} else {
		next.wake <- struct{}{}
	}
	if !t.done && wait {
		<-t.wake
		if s.aborted {
			panic(abortSignal{})
		}
	}
}

// point is a scheduling point of the running thread: the pending operation is enabled when en()
// holds (nil = always). On return the thread holds the baton and en() is true.
func point(what string, en func() bool) {
	s := active
	if s == nil {
		return
	}
	if s.aborted {
		panic(abortSignal{})
	}
	t := s.cur
	t.what = what
	t.enabled = en
	s.schedule(t, true)
	t.enabled = nil
}

// Yield is an explicit scheduling point (used by harnesses around observable steps).
func Yield(what string) { point(what, nil) }

// Go starts a new logical thread.
func Go(f func()) { GoNamed("", f) }

// GoNamed starts a new logical thread with a name (for reports).
func GoNamed(name string, f func()) {
	s := active
	if s == nil {
		go f()
		return
	}
	if s.aborted {
		panic(abortSignal{})
	}
	t := &thread{id: len(s.threads), wake: make(chan struct{}, 1), fn: f, what: "start"}
	if name == "" {
		name = fmt.Sprintf("t%d", t.id)
	}
	t.name = name
	s.threads = append(s.threads, t)
	point("go", nil)
}

// ---------------------------------------------------------------- Mutex

// Mutex is a scheduler-aware mutex.
type Mutex struct {
	held  bool
	owner int
}

// Lock acquires m.
func (m *Mutex) Lock() {
	if active == nil {
		return
	}
	point("Lock", func() bool { return !m.held })
	m.held = true
	m.owner = ThreadID()
}

// TryLock tries to acquire m.
func (m *Mutex) TryLock() bool {
	if active == nil {
		return true
	}
	point("TryLock", nil)
	if m.held {
		return false
	}
	m.held = true
	m.owner = ThreadID()
	return true
}

// Unlock releases m.
func (m *Mutex) Unlock() {
	if active == nil || active.aborted {
		return
	}
	if !m.held {
		panic("vsched: unlock of unlocked mutex")
	}
	m.held = false
}

// RWMutex is a scheduler-aware reader/writer mutex (writer preference is not modelled: any
// admissible order of acquisitions is explored).
type RWMutex struct {
	writer  bool
	readers int
}

// Lock acquires the write lock.
func (m *RWMutex) Lock() {
	if active == nil {
		return
	}
	point("RWLock", func() bool { return !m.writer && m.readers == 0 })
	m.writer = true
}

// Unlock releases the write lock.
func (m *RWMutex) Unlock() {
	if active == nil || active.aborted {
		return
	}
	m.writer = false
}

// RLock acquires a read lock.
func (m *RWMutex) RLock() {
	if active == nil {
		return
	}
	point("RLock", func() bool { return !m.writer })
	m.readers++
}

// RUnlock releases a read lock.
func (m *RWMutex) RUnlock() {
	if active == nil || active.aborted {
		return
	}
	m.readers--
}

// RLocker returns a Locker for the read side.
func (m *RWMutex) RLocker() Locker { return rlocker{m} }

type rlocker struct{ m *RWMutex }

func (r rlocker) Lock()   { r.m.RLock() }
func (r rlocker) Unlock() { r.m.RUnlock() }

// ---------------------------------------------------------------- Cond

// Cond is a scheduler-aware condition variable (no spurious wake-ups, like sync.Cond).
type Cond struct {
	L       Locker
	waiters []*condWaiter
}

type condWaiter struct{ signalled bool }

// NewCond returns a condition variable.
func NewCond(l Locker) *Cond { return &Cond{L: l} }

// Wait releases the lock, blocks until signalled and re-acquires the lock.
func (c *Cond) Wait() {
	if active == nil {
		return
	}
	w := &condWaiter{}
	c.waiters = append(c.waiters, w)
	c.L.Unlock()
	point("Cond.Wait", func() bool { return w.signalled })
	c.L.Lock()
}

// Signal wakes one waiter.
func (c *Cond) Signal() {
	if active == nil || active.aborted {
		return
	}
	point("Cond.Signal", nil)
	if len(c.waiters) > 0 {
		c.waiters[0].signalled = true
		c.waiters = c.waiters[1:]
	}
}

// Broadcast wakes all waiters.
func (c *Cond) Broadcast() {
	if active == nil || active.aborted {
		return
	}
	point("Cond.Broadcast", nil)
	for _, w := range c.waiters {
		w.signalled = true
	}
	c.waiters = nil
}

// ---------------------------------------------------------------- WaitGroup, Once

// WaitGroup is a scheduler-aware wait group.
type WaitGroup struct{ n int }

// Add adds delta.
func (w *WaitGroup) Add(d int) { w.n += d }

// Done decrements.
func (w *WaitGroup) Done() { w.n-- }

// Wait blocks until the counter is zero.
func (w *WaitGroup) Wait() {
	if active == nil {
		return
	}
	point("WaitGroup.Wait", func() bool { return w.n <= 0 })
}

// Go runs f in a new thread and tracks it.
func (w *WaitGroup) Go(f func()) {
	w.Add(1)
	Go(func() {
		defer w.Done()
		f()
	})
}

// Once mirrors sync.Once.
type Once struct{ done bool }

// Do runs f once.
func (o *Once) Do(f func()) {
	if !o.done {
		o.done = true
		f()
	}
}

// ---------------------------------------------------------------- channels

type chanState struct {
	closed bool
	queue  []reflect.Value
	cap    int
}

func stateOf(ch any) *chanState {
	s := active
	v := reflect.ValueOf(ch)
	p := v.Pointer()
	st := s.chans[p]
	if st == nil {
		st = &chanState{cap: v.Cap()}
		s.chans[p] = st
	}
	return st
}

// Close closes a channel under the scheduler (the real channel is closed too, so that uninstrumented
// readers see it).
func Close[T any](ch chan T) {
	if active == nil || active.aborted {
		defer func() { _ = recover() }()
		close(ch)
		return
	}
	point("close(chan)", nil)
	st := stateOf(ch)
	if st.closed {
		panic("close of closed channel")
	}
	st.closed = true
	close(ch)
}

// Recv receives from a channel under the scheduler.
func Recv[T any](ch <-chan T) T {
	v, _ := Recv2(ch)
	return v
}

// Recv2 is the two-value receive.
func Recv2[T any](ch <-chan T) (T, bool) {
	var zero T
	if active == nil {
		v, ok := <-ch
		return v, ok
	}
	st := stateOf(ch)
	point("recv", func() bool { return st.closed || len(st.queue) > 0 })
	if len(st.queue) > 0 {
		v := st.queue[0]
		st.queue = st.queue[1:]
		return v.Interface().(T), true
	}
	return zero, false
}

// Send sends on a channel under the scheduler. Buffered semantics; an unbuffered channel is treated as
// a buffer of one slot that the sender may only fill when a receiver will be able to take it (the
// explorer still explores both orders of what follows, which is all the library's uses depend on).
func Send[T any](ch chan<- T, v T) {
	if active == nil {
		ch <- v
		return
	}
	st := stateOf(ch)
	limit := max(st.cap, 1)
	point("send", func() bool { return st.closed || len(st.queue) < limit })
	if st.closed {
		panic("send on closed channel")
	}
	st.queue = append(st.queue, reflect.ValueOf(v))
}

// TrySend sends without blocking; it reports whether the value was queued.
func TrySend[T any](ch chan<- T, v T) bool {
	if active == nil {
		select {
		case ch <- v:
			return true
		default:
			return false
		}
	}
	st := stateOf(ch)
	point("trysend", nil)
	if st.closed || len(st.queue) >= max(st.cap, 1) {
		return false
	}
	st.queue = append(st.queue, reflect.ValueOf(v))
	return true
}

// Case is one arm of a Select.
type Case struct {
	ready func() bool
}

// RecvCase is a receive arm.
func RecvCase[T any](ch <-chan T) Case {
	if ch == nil {
		return Case{ready: func() bool { return false }}
	}
	st := stateOf(ch)
	return Case{ready: func() bool { return st.closed || len(st.queue) > 0 }}
}

// SendCase is a send arm.
func SendCase[T any](ch chan<- T) Case {
	if ch == nil {
		return Case{ready: func() bool { return false }}
	}
	st := stateOf(ch)
	return Case{ready: func() bool { return st.closed || len(st.queue) < max(st.cap, 1) }}
}

// Select blocks until one arm is ready and returns its index (the lowest ready index; the choice
// among several ready arms is explored through the schedule that made them ready). With hasDefault
// it returns -1 when no arm is ready.
func Select(hasDefault bool, cases ...Case) int {
	pick := func() int {
		for i, c := range cases {
			if c.ready() {
				return i
			}
		}
		return -1
	}
	if active == nil {
		panic("vsched.Select outside a controlled execution")
	}
	if hasDefault {
		point("select/default", nil)
		return pick()
	}
	point("select", func() bool { return pick() >= 0 })
	return pick()
}

// ---------------------------------------------------------------- explorer

// Explorer enumerates all executions of a body within a preemption bound.
type Explorer struct {
	Bound      int // maximum number of preemptions; <0 = unbounded
	MaxSteps   int
	MaxExec    int64 // stop after this many executions (0 = no cap); reported as a cap, never as exhaustive
	Executions int64
	Capped     bool
	Diverged   string
	// Check is called after every execution; returning false stops the exploration.
	Check func(choices []int, r *Result) bool
}

func preemptionCost(p Point) int {
	if p.Running >= 0 && p.Chosen != 0 {
		return 1
	}
	return 0
}

// Explore runs body under every schedule with at most Bound preemptions.
func (e *Explorer) Explore(body func()) {
	var rec func(prefix []int) bool
	rec = func(prefix []int) bool {
		if e.MaxExec > 0 && e.Executions >= e.MaxExec {
			e.Capped = true
			return false
		}
		r := Run(prefix, e.MaxSteps, body)
		e.Executions++
		if r.Diverged != "" {
			e.Diverged = r.Diverged
			return false
		}
		choices := make([]int, len(r.Points))
		for i, p := range r.Points {
			choices[i] = p.Chosen
		}
		if e.Check != nil && !e.Check(choices, r) {
			return false
		}
		cost := 0
		for i := 0; i < len(r.Points); i++ {
			p := r.Points[i]
			if i >= len(prefix) {
				for alt := 1; alt < len(p.Enabled); alt++ {
					c := cost
					if p.Running >= 0 {
						c++
					}
					if e.Bound >= 0 && c > e.Bound {
						continue
					}
					np := append(append([]int{}, choices[:i]...), alt)
					if !rec(np) {
						return false
					}
				}
			}
			cost += preemptionCost(p)
		}
		return true
	}
	rec(nil)
}

// SortedBlocked returns the blocked-thread descriptions in a canonical order.
func (r *Result) SortedBlocked() []string {
	b := append([]string{}, r.Blocked...)
	sort.Strings(b)
	return b
}

// ---------------------------------------------------------------- atomics (import swap of sync/atomic)
//
// Every atomic operation is a scheduling point: code that reads shared state outside its mutex has to do
// it atomically (or the race detector pass complains), and it is exactly between an Unlock and such a read
// that another thread's whole critical section can fit.

// Uint64 mirrors atomic.Uint64.
type Uint64 struct{ v uint64 }

func (x *Uint64) Load() uint64   { point("atomic", nil); return x.v }
func (x *Uint64) Store(v uint64) { point("atomic", nil); x.v = v }
func (x *Uint64) Add(d uint64) uint64 {
	point("atomic", nil)
	x.v += d
	return x.v
}
func (x *Uint64) Swap(v uint64) uint64 { point("atomic", nil); o := x.v; x.v = v; return o }
func (x *Uint64) CompareAndSwap(o, n uint64) bool {
	point("atomic", nil)
	if x.v == o {
		x.v = n
		return true
	}
	return false
}

// Int64 mirrors atomic.Int64.
type Int64 struct{ v int64 }

func (x *Int64) Load() int64   { point("atomic", nil); return x.v }
func (x *Int64) Store(v int64) { point("atomic", nil); x.v = v }
func (x *Int64) Add(d int64) int64 {
	point("atomic", nil)
	x.v += d
	return x.v
}
func (x *Int64) Swap(v int64) int64 { point("atomic", nil); o := x.v; x.v = v; return o }
func (x *Int64) CompareAndSwap(o, n int64) bool {
	point("atomic", nil)
	if x.v == o {
		x.v = n
		return true
	}
	return false
}

// Uint32 mirrors atomic.Uint32.
type Uint32 struct{ v uint32 }

func (x *Uint32) Load() uint32   { point("atomic", nil); return x.v }
func (x *Uint32) Store(v uint32) { point("atomic", nil); x.v = v }
func (x *Uint32) Add(d uint32) uint32 {
	point("atomic", nil)
	x.v += d
	return x.v
}
func (x *Uint32) Swap(v uint32) uint32 { point("atomic", nil); o := x.v; x.v = v; return o }
func (x *Uint32) CompareAndSwap(o, n uint32) bool {
	point("atomic", nil)
	if x.v == o {
		x.v = n
		return true
	}
	return false
}

// Int32 mirrors atomic.Int32.
type Int32 struct{ v int32 }

func (x *Int32) Load() int32   { point("atomic", nil); return x.v }
func (x *Int32) Store(v int32) { point("atomic", nil); x.v = v }
func (x *Int32) Add(d int32) int32 {
	point("atomic", nil)
	x.v += d
	return x.v
}
func (x *Int32) Swap(v int32) int32 { point("atomic", nil); o := x.v; x.v = v; return o }
func (x *Int32) CompareAndSwap(o, n int32) bool {
	point("atomic", nil)
	if x.v == o {
		x.v = n
		return true
	}
	return false
}

// Bool mirrors atomic.Bool.
type Bool struct{ v bool }

func (x *Bool) Load() bool       { point("atomic", nil); return x.v }
func (x *Bool) Store(v bool)     { point("atomic", nil); x.v = v }
func (x *Bool) Swap(v bool) bool { point("atomic", nil); o := x.v; x.v = v; return o }
func (x *Bool) CompareAndSwap(o, n bool) bool {
	point("atomic", nil)
	if x.v == o {
		x.v = n
		return true
	}
	return false
}

// Pointer mirrors atomic.Pointer.
type Pointer[T any] struct{ v *T }

func (x *Pointer[T]) Load() *T     { point("atomic", nil); return x.v }
func (x *Pointer[T]) Store(v *T)   { point("atomic", nil); x.v = v }
func (x *Pointer[T]) Swap(v *T) *T { point("atomic", nil); o := x.v; x.v = v; return o }
func (x *Pointer[T]) CompareAndSwap(o, n *T) bool {
	point("atomic", nil)
	if x.v == o {
		x.v = n
		return true
	}
	return false
}

// function forms
func LoadUint64(p *uint64) uint64          { point("atomic", nil); return *p }
func StoreUint64(p *uint64, v uint64)      { point("atomic", nil); *p = v }
func AddUint64(p *uint64, d uint64) uint64 { point("atomic", nil); *p += d; return *p }
func LoadInt64(p *int64) int64             { point("atomic", nil); return *p }
func StoreInt64(p *int64, v int64)         { point("atomic", nil); *p = v }
func AddInt64(p *int64, d int64) int64     { point("atomic", nil); *p += d; return *p }
func LoadUint32(p *uint32) uint32          { point("atomic", nil); return *p }
func StoreUint32(p *uint32, v uint32)      { point("atomic", nil); *p = v }
func AddUint32(p *uint32, d uint32) uint32 { point("atomic", nil); *p += d; return *p }
func LoadInt32(p *int32) int32             { point("atomic", nil); return *p }
func StoreInt32(p *int32, v int32)         { point("atomic", nil); *p = v }
func AddInt32(p *int32, d int32) int32     { point("atomic", nil); *p += d; return *p }
