// Package vstime is the "time" of library code that runs under the controlled scheduler (vsched):
// constants and types are those of package time, Now is a fixed instant, and tickers/timers are
// channels the scheduler knows about, fired explicitly by a harness thread (Tick), so that "the ticker
// fires now" is one more scheduling choice that the explorer enumerates.
package vstime

import (
	"time"

	"github.com/bluenviron/gortsplib/v5/pkg/zverif/vsched"
)

type (
	Duration = time.Duration
	Time     = time.Time
	Month    = time.Month
)

const (
	Nanosecond  = time.Nanosecond
	Microsecond = time.Microsecond
	Millisecond = time.Millisecond
	Second      = time.Second
	Minute      = time.Minute
	Hour        = time.Hour
)

var UTC = time.UTC

var now = time.Date(2024, 1, 1, 0, 0, 0, 0, time.UTC)

// Now returns the (fixed, harness-advanced) instant.
func Now() Time { return now }

// Since mirrors time.Since.
func Since(t Time) Duration { return now.Sub(t) }

// Unix mirrors time.Unix.
func Unix(s, ns int64) Time { return time.Unix(s, ns) }

// Date mirrors time.Date.
func Date(y int, m Month, d, h, mi, s, ns int, loc *time.Location) Time {
	return time.Date(y, m, d, h, mi, s, ns, loc)
}

var live []chan time.Time

// Reset forgets every ticker (call at the start of an execution).
func Reset() { live = nil; now = time.Date(2024, 1, 1, 0, 0, 0, 0, time.UTC) }

// Ticker mirrors time.Ticker.
type Ticker struct {
	C <-chan Time
	c chan Time
}

// NewTicker mirrors time.NewTicker; the ticker only fires through Tick.
func NewTicker(d Duration) *Ticker {
	c := make(chan Time, 1)
	live = append(live, c)
	return &Ticker{C: c, c: c}
}

// Stop mirrors (*time.Ticker).Stop.
func (t *Ticker) Stop() {
	for i, c := range live {
		if c == t.c {
			live = append(live[:i:i], live[i+1:]...)
			return
		}
	}
}

// Timer mirrors time.Timer.
type Timer struct {
	C <-chan Time
	c chan Time
}

// NewTimer mirrors time.NewTimer; fires through Tick (once).
func NewTimer(d Duration) *Timer {
	c := make(chan Time, 1)
	live = append(live, c)
	return &Timer{C: c, c: c}
}

// Stop mirrors (*time.Timer).Stop.
func (t *Timer) Stop() bool {
	for i, c := range live {
		if c == t.c {
			live = append(live[:i:i], live[i+1:]...)
			return true
		}
	}
	return false
}

// Tick advances the clock by d and fires every live ticker/timer whose channel has room.
func Tick(d Duration) {
	now = now.Add(d)
	for _, c := range append([]chan Time{}, live...) {
		vsched.TrySend(c, now)
	}
}
