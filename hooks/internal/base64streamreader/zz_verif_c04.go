//go:build verif

package base64streamreader

import "io"

// VerifBuffered reports the sizes of the two internal buffers of a reader made by New.
func VerifBuffered(r io.Reader) (preLen, postLen, preCap, postCap int, ok bool) {
	rr, isR := r.(*reader)
	if !isR {
		return 0, 0, 0, 0, false
	}
	return len(rr.predec), len(rr.postdec), cap(rr.predec), cap(rr.postdec), true
}

// VerifReadSize is the size of the reads issued to the underlying reader.
func VerifReadSize() int { return readSize }
