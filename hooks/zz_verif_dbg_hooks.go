//go:build verif

package gortsplib

import "time"

// VerifTimers exposes the liveness bookkeeping of a session (debugging aid for the harnesses).
func (ss *ServerSession) VerifTimers() (time.Time, int64) {
	return ss.lastRequestTime, ss.udpLastPacketTime.Load()
}
