//go:build verif

package gortsplib

import (
	"github.com/pion/sdp/v3"

	"github.com/bluenviron/gortsplib/v5/pkg/base"
	"github.com/bluenviron/gortsplib/v5/pkg/description"
)

// Accessors for check C20 (URL fidelity). Thin wrappers around the unexported URL analysis functions of
// the server (server_session.go) and the base-URL choice of the client (client.go); no logic of their own.

// VerifC20GetPathAndQuery runs getPathAndQuery (every method except SETUP).
func VerifC20GetPathAndQuery(u *base.URL, isAnnounce bool) (string, string) {
	return getPathAndQuery(u, isAnnounce)
}

// VerifC20GetPathAndQueryAndTrackID runs getPathAndQueryAndTrackID (SETUP when playing).
func VerifC20GetPathAndQueryAndTrackID(u *base.URL) (string, string, string, error) {
	return getPathAndQueryAndTrackID(u)
}

// VerifC20FindMediaByURL runs findMediaByURL (SETUP when recording).
func VerifC20FindMediaByURL(medias []*description.Media, path, query string, u *base.URL) *description.Media {
	return findMediaByURL(medias, path, query, u)
}

// VerifC20FindMediaByTrackID runs findMediaByTrackID (SETUP when playing).
func VerifC20FindMediaByTrackID(medias []*description.Media, trackID string) *description.Media {
	return findMediaByTrackID(medias, trackID)
}

// VerifC20FindBaseURL runs the client's findBaseURL (session-level control, Content-Base, request URL).
func VerifC20FindBaseURL(sd *sdp.SessionDescription, res *base.Response, u *base.URL) (*base.URL, error) {
	return findBaseURL(sd, res, u)
}
