//go:build verif

package gortsplib

// Accessors for check C19 (media and control are bound to the negotiated peer). Read-only.

// VerifC19SecretID returns the session id. An ANNOUNCE response carries no Session header, so for
// the states "announced, nothing set up yet" the id a thief would use cannot be read off the wire.
func (ss *ServerSession) VerifC19SecretID() string { return ss.secretID }
