//go:build verif

package gortsplib

import (
	"crypto/rand"

	"github.com/bluenviron/gortsplib/v5/pkg/base"
	"github.com/bluenviron/gortsplib/v5/pkg/headers"
)

// Accessors for check C11 (the server survives hostile control connections and cleans up after them).
// Read-only counts; no logic of their own.

// VerifC11ReaderCount returns the sizes of the stream's reader sets, taken under the stream's own mutex.
func (st *ServerStream) VerifC11ReaderCount() (readers, activeUnicast, multicast int) {
	st.mutex.RLock()
	defer st.mutex.RUnlock()
	return len(st.readers), len(st.activeUnicastReaders), st.multicastReaderCount
}

// VerifC11UDPClients returns the sizes of the client tables of the two unicast UDP listeners (-1: no
// listener), each taken under the listener's own mutex.
func (s *Server) VerifC11UDPClients() (rtp, rtcp int) {
	rtp, rtcp = -1, -1
	if s.udpRTPListener != nil {
		s.udpRTPListener.clientsMutex.RLock()
		rtp = len(s.udpRTPListener.clients)
		s.udpRTPListener.clientsMutex.RUnlock()
	}
	if s.udpRTCPListener != nil {
		s.udpRTCPListener.clientsMutex.RLock()
		rtcp = len(s.udpRTCPListener.clients)
		s.udpRTCPListener.clientsMutex.RUnlock()
	}
	return rtp, rtcp
}

// VerifC11Counts returns the sizes of the server's connection, session and pending-HTTP-GET tables.
// These maps are owned by the server goroutine: call this only while the library is quiescent (every
// library goroutine blocked, as established by the harness' Settle barrier).
func (s *Server) VerifC11Counts() (conns, sessions, httpReadChannels int) {
	return len(s.conns), len(s.sessions), len(s.httpReadChannels)
}

// VerifC11KeyMgmt returns a well-formed KeyMgmt header value (a fresh random SRTP master key, the given
// SSRCs, the current time of the library's clock) built with the library's own contextToMikey: what a
// well-behaved RTSPS client sends in SETUP.
func VerifC11KeyMgmt(url string, ssrcs []uint32) (base.HeaderValue, error) {
	key := make([]byte, srtpKeyLength)
	if _, err := rand.Read(key); err != nil {
		return nil, err
	}
	ctx := &wrappedSRTPContext{key: key, ssrcs: ssrcs}
	if err := ctx.initialize(); err != nil {
		return nil, err
	}
	mk, err := contextToMikey(ctx)
	if err != nil {
		return nil, err
	}
	return headers.KeyMgmt{URL: url, MikeyMessage: mk}.Marshal()
}
