//go:build verif

package gortsplib

// Accessors for check C11 (the server survives hostile control connections and cleans up after them).
// Read-only counts; no logic of their own.

// VerifC11ReaderCount returns the sizes of the stream's reader sets, taken under the stream's own mutex.
func (st *ServerStream) VerifC11ReaderCount() (readers, activeUnicast, multicast int) {
	st.mutex.RLock()
	defer st.mutex.RUnlock()
	return len(st.readers), len(st.activeUnicastReaders), st.multicastReaderCount
}

// VerifC11UDPClients returns the sizes of the client tables of the two unicast UDP listeners (-1: no
// listener), each taken under the listener's own mutex.
func (s *Server) VerifC11UDPClients() (rtp, rtcp int) {
	rtp, rtcp = -1, -1
	if s.udpRTPListener != nil {
		s.udpRTPListener.clientsMutex.RLock()
		rtp = len(s.udpRTPListener.clients)
		s.udpRTPListener.clientsMutex.RUnlock()
	}
	if s.udpRTCPListener != nil {
		s.udpRTCPListener.clientsMutex.RLock()
		rtcp = len(s.udpRTCPListener.clients)
		s.udpRTCPListener.clientsMutex.RUnlock()
	}
	return rtp, rtcp
}

// VerifC11Counts returns the sizes of the server's connection, session and pending-HTTP-GET tables.
// These maps are owned by the server goroutine: call this only while the library is quiescent (every
// library goroutine blocked, as established by the harness' Settle barrier).
func (s *Server) VerifC11Counts() (conns, sessions, httpReadChannels int) {
	return len(s.conns), len(s.sessions), len(s.httpReadChannels)
}
