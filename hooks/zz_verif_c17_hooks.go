//go:build verif

package gortsplib

import (
	"github.com/pion/rtcp"
	"github.com/pion/rtp"

	"github.com/bluenviron/gortsplib/v5/pkg/mikey"
)

// Accessors for check C17 (secure sessions). Thin wrappers around the unexported SRTP context and its
// MIKEY conversion (wrapped_srtp_context.go) and the size constants (constants.go); no logic of their own.

// Constants of constants.go.
const (
	VerifC17SRTPKeyLength = srtpKeyLength
	VerifC17SRTPOverhead  = srtpOverhead
	VerifC17SRTCPOverhead = srtcpOverhead
	VerifC17MKILength     = mkiLength
	VerifC17UDPMaxPayload = udpMaxPayloadSize
)

// VerifC17Ctx wraps a wrappedSRTPContext.
type VerifC17Ctx struct{ c *wrappedSRTPContext }

// VerifC17NewCtx builds a wrappedSRTPContext from its four inputs and initialises it.
func VerifC17NewCtx(key []byte, ssrcs []uint32, startROCs []uint32, mki []byte) (*VerifC17Ctx, error) {
	c := &wrappedSRTPContext{key: key, mki: mki, ssrcs: ssrcs, startROCs: startROCs}
	if err := c.initialize(); err != nil {
		return nil, err
	}
	return &VerifC17Ctx{c}, nil
}

// VerifC17ContextToMikey runs contextToMikey.
func VerifC17ContextToMikey(x *VerifC17Ctx) (*mikey.Message, error) { return contextToMikey(x.c) }

// VerifC17MikeyToContext runs mikeyToContext.
func VerifC17MikeyToContext(m *mikey.Message) (*VerifC17Ctx, error) {
	c, err := mikeyToContext(m)
	if err != nil {
		return nil, err
	}
	return &VerifC17Ctx{c}, nil
}

// Key returns the master key + salt of the context.
func (x *VerifC17Ctx) Key() []byte { return x.c.key }

// MKI returns the master key indicator.
func (x *VerifC17Ctx) MKI() []byte { return x.c.mki }

// SSRCs returns the SSRC list.
func (x *VerifC17Ctx) SSRCs() []uint32 { return x.c.ssrcs }

// StartROCs returns the initial roll-over counters.
func (x *VerifC17Ctx) StartROCs() []uint32 { return x.c.startROCs }

// ROC reads the roll-over counter of ssrc from the SRTP context itself (not through a helper of the
// wrapper, so that a refactoring of the helpers does not take the check down with it).
func (x *VerifC17Ctx) ROC(ssrc uint32) uint32 {
	x.c.mutex.RLock()
	defer x.c.mutex.RUnlock()
	v, _ := x.c.w.ROC(ssrc)
	return v
}

// EncryptRTP runs encryptRTP.
func (x *VerifC17Ctx) EncryptRTP(dst, plain []byte, h *rtp.Header) ([]byte, error) {
	return x.c.encryptRTP(dst, plain, h)
}

// DecryptRTP runs decryptRTP.
func (x *VerifC17Ctx) DecryptRTP(dst, enc []byte, h *rtp.Header) ([]byte, error) {
	return x.c.decryptRTP(dst, enc, h)
}

// EncryptRTCP runs encryptRTCP.
func (x *VerifC17Ctx) EncryptRTCP(dst, plain []byte, h *rtcp.Header) ([]byte, error) {
	return x.c.encryptRTCP(dst, plain, h)
}

// DecryptRTCP runs decryptRTCP.
func (x *VerifC17Ctx) DecryptRTCP(dst, enc []byte, h *rtcp.Header) ([]byte, error) {
	return x.c.decryptRTCP(dst, enc, h)
}

// VerifC17FastRTPUnmarshal runs fastRTPUnmarshal (what the read path applies after decryption).
func VerifC17FastRTPUnmarshal(payload []byte, h *rtp.Header, headerSize int) (*rtp.Packet, error) {
	return fastRTPUnmarshal(payload, h, headerSize)
}
