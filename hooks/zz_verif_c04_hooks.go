//go:build verif

package gortsplib

import (
	"bufio"
	"bytes"
	"context"
	"fmt"
	"io"
	"net"
	"net/http"
	"time"

	"github.com/bluenviron/mediacommon/v2/pkg/rewindablereader"

	"github.com/bluenviron/gortsplib/v5/internal/base64streamreader"
	"github.com/bluenviron/gortsplib/v5/pkg/base"
)

// Accessors for check C04 (RTSP framing over the three byte carriers). They only construct the
// unexported tunnel types / call the unexported functions; no logic of their own except
// VerifC04ServerAcceptHTTPTunnelPOST, which repeats the first lines of
// serverConnReader.handleTunneling (the rest of that branch needs a running Server).

// VerifC04Dial is the dial function type of the client tunnels.
type VerifC04Dial = func(ctx context.Context, network, address string) (net.Conn, error)

// VerifC04NewClientTunnelHTTP runs the real newClientTunnelHTTP (GET channel, POST channel).
func VerifC04NewClientTunnelHTTP(ctx context.Context, addr string, dial VerifC04Dial, u *base.URL) (net.Conn, error) {
	return newClientTunnelHTTP(ctx, addr, false, nil, dial, nil, u)
}

// VerifC04NewClientTunnelWebSocket runs the real newClientTunnelWebSocket.
func VerifC04NewClientTunnelWebSocket(ctx context.Context, addr string, dial VerifC04Dial) (net.Conn, error) {
	return newClientTunnelWebSocket(ctx, addr, false, nil, dial, nil)
}

// VerifC04ServerHandleTunneling runs the real serverConnReader.handleTunneling on nconn. It works for
// plain RTSP (returns the rewindable reader) and for the WebSocket upgrade (returns wsReader/wsWriter);
// the HTTP-tunnel branch needs a running Server and is not reachable here.
func VerifC04ServerHandleTunneling(nconn net.Conn) (io.ReadWriter, error) {
	cr := &serverConnReader{sc: &ServerConn{nconn: nconn, s: &Server{IdleTimeout: 60 * time.Second, ReadTimeout: 10 * time.Second, WriteTimeout: 10 * time.Second}}}
	return cr.handleTunneling(nconn)
}

// VerifC04ServerAcceptHTTPTunnelPOST does what the server does with the POST channel of an HTTP tunnel:
// sniff 4 bytes through a rewindable reader, http.ReadRequest on a bufio.Reader, isHTTPTunnel, and then
// newServerHTTPTunnel(nconn, thatBufioReader, w) exactly as Server.run does.
func VerifC04ServerAcceptHTTPTunnelPOST(nconn net.Conn, w net.Conn) (net.Conn, error) {
	rr := &rewindablereader.Reader{R: nconn}
	b4 := make([]byte, 4)
	if _, err := io.ReadFull(rr, b4); err != nil {
		return nil, err
	}
	rr.Rewind()
	if !bytes.Equal(b4, []byte("POST")) {
		return nil, fmt.Errorf("not a POST")
	}
	buf := bufio.NewReader(rr)
	req, err := http.ReadRequest(buf)
	if err != nil {
		return nil, err
	}
	if !isHTTPTunnel(req) || req.Method != http.MethodPost {
		return nil, fmt.Errorf("not an HTTP tunnel POST")
	}
	return newServerHTTPTunnel(nconn, buf, w), nil
}

// VerifC04NewServerHTTPTunnel is newServerHTTPTunnel.
func VerifC04NewServerHTTPTunnel(r net.Conn, rb *bufio.Reader, w net.Conn) net.Conn {
	return newServerHTTPTunnel(r, rb, w)
}

// VerifC04Base64Buffered reports the buffer sizes of the base64 stream reader inside a serverHTTPTunnel.
func VerifC04Base64Buffered(tunnel net.Conn) (preLen, postLen, preCap, postCap int, ok bool) {
	t, isT := tunnel.(*serverHTTPTunnel)
	if !isT {
		return 0, 0, 0, 0, false
	}
	return base64streamreader.VerifBuffered(t.rb)
}

// VerifC04Base64ReadSize is the read size of the base64 stream reader.
func VerifC04Base64ReadSize() int { return base64streamreader.VerifReadSize() }
