//go:build verif

package base

// VerifC04Limits returns the limits of the RTSP reader as they are written in this tree.
func VerifC04Limits() map[string]int {
	return map[string]int{
		"method":       requestMaxMethodLength,
		"url":          requestMaxURLLength,
		"protocol":     requestMaxProtocolLength,
		"header-count": headerMaxEntryCount,
		"header-key":   headerMaxKeyLength,
		"header-value": headerMaxValueLength,
		"body":         rtspMaxBodySize,
	}
}
