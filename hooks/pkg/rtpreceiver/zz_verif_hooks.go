//go:build verif

package rtpreceiver

import "github.com/pion/rtcp"

// VerifReport produces the receiver report the ticker goroutine would emit now.
func (rr *Receiver) VerifReport() rtcp.Packet { return rr.report() }
