//go:build verif

package headers

import "sort"

// VerifOrder owns the order in which the header parsers visit the keys returned by keyValParse.
// It is used only by the copies of the parser files that checks/c09/overlay.py generates, in which
// `for k, v := range kvs {` has been replaced by `for _, k := range verifKeys(kvs) { v := kvs[k]`.
//
//   - nil: the keys are visited in Go's native (randomised) map order, exactly as in the shipped code;
//   - set: the function receives the keys sorted and returns the order in which they are visited.
var VerifOrder func(sortedKeys []string) []string

func verifKeys(m map[string]string) []string {
	keys := make([]string, 0, len(m))
	for k := range m {
		keys = append(keys, k)
	}
	if f := VerifOrder; f != nil {
		sort.Strings(keys)
		keys = f(keys)
	}
	return keys
}
