//go:build verif

package rtpsender

import "github.com/pion/rtcp"

// VerifReport produces the sender report the ticker goroutine would emit now.
func (rs *Sender) VerifReport() rtcp.Packet { return rs.report() }
