//go:build verif

package rtptime

import "time"

// VerifSetTimeNow replaces the package-level time source of GlobalDecoder (the harness owns the clock).
func VerifSetTimeNow(f func() time.Time) { timeNow = f }
