#!/bin/bash
# Run once after a fresh restore, offline. Pre-warms the Go build cache so that the first check is not
# dominated by a cold build; every check rebuilds its harness from /repo's working tree anyway.
set -u
export GOFLAGS=-mod=mod GOPROXY=off
unset GOSUMDB
cd /verif || exit 1
mkdir -p .work evidence replays
cp /repo/go.sum go.sum.repo 2>/dev/null && cat go.sum.repo >> go.sum && sort -u go.sum -o go.sum && rm -f go.sum.repo
python3 tools/mkoverlay.py /repo .work checks/none > .work/overlay-setup.json || exit 1
go build -tags verif -overlay .work/overlay-setup.json -o /dev/null ./checks/... || exit 1
echo setup ok
