#!/bin/bash
# Run once after a fresh restore, offline. Pre-warms the Go build cache by building every check exactly
# the way ./vcheck does (its own generated overlay), so that the first check is not dominated by a cold
# build. Every check rebuilds its harness from /repo's working tree anyway; a check that does not build
# here will say so itself (exit 2) when it is run.
set -u
export GOFLAGS=-mod=mod GOPROXY=off
unset GOSUMDB
cd /verif || exit 1
mkdir -p .work evidence replays
work=$(mktemp -d /verif/.work/setup.XXXXXX) || exit 1
trap 'rm -rf "$work"' EXIT
go version || exit 1
fail=0
for d in checks/*/; do
  c=$(basename "$d")
  mkdir -p "$work/$c"
  if python3 tools/mkoverlay.py /repo "$work/$c" "checks/$c" > "$work/$c/overlay.json" 2> "$work/$c/gen.log" && \
     go build -tags verif -overlay "$work/$c/overlay.json" -o /dev/null "./checks/$c" 2> "$work/$c/build.log"; then
    echo "built $c"
  else
    echo "WARNING: $c does not build in setup:"; tail -5 "$work/$c/gen.log" "$work/$c/build.log" 2>/dev/null
    fail=$((fail+1))
  fi
done
echo "setup done ($fail checks did not build)"
exit 0
