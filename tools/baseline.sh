#!/bin/bash
# tools/baseline.sh - run the repository's own test suite (unedited, guard off) in a private network namespace
# (the suite binds fixed ports) and compare with /root/.vp/BASELINE.json's stable_pass list.
cat > /tmp/vbaseline_ns.sh <<'EOS'
#!/bin/sh
. /verif/tools/netns.sh
cd /repo && GOFLAGS=-mod=mod GOPROXY=off go test -json -vet=off -count=1 -timeout 25m ./... > /tmp/vbaseline.json 2>/tmp/vbaseline.err
EOS
chmod +x /tmp/vbaseline_ns.sh; unshare -n /tmp/vbaseline_ns.sh
python3 - <<'EOP'
import json
passed=set(); failed=set()
for l in open('/tmp/vbaseline.json'):
    try: e=json.loads(l)
    except: continue
    if e.get('Test') and e.get('Action') in ('pass','fail'):
        k=e['Package']+'::'+e['Test']
        (passed if e['Action']=='pass' else failed).add(k)
sp=set(json.load(open('/root/.vp/BASELINE.json'))['stable_pass'])
print('stable_pass',len(sp),'passed',len(sp&passed),'failed',len(sp&failed),'missing',len(sp-passed-failed))
for t in sorted(sp&failed)[:20]: print('FAILED',t)
EOP
rm -f /tmp/vbaseline_ns.sh /tmp/vbaseline.json /tmp/vbaseline.err
