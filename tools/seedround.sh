#!/bin/bash
# tools/seedround.sh <suffix> Cxx... - prepares a later-round workspace per property: seedsetup.sh plus, appended to
# INSTRUCTIONS.md, what the earlier deliveries for that property changed (the agent is asked for something else)
# and the private-network-namespace helper for the root suite.
cd "$(dirname "$(readlink -f "$0")")/.." || exit 2
suf=$1; shift
for id in "$@"; do
  d=$(tools/seedsetup.sh "$id" "$suf")
  cp tools/netns.sh "$d/netns.sh"
  python3 - "$id" "$d" >> "$d/INSTRUCTIONS.md" <<'PY'
import json,glob,sys,os
pid,d=sys.argv[1],sys.argv[2]
print("\nEARLIER DELIVERIES for this property (other people, earlier rounds) - yours must differ from ALL of them in file or function, in mechanism, and in the clause / dimension of the quantifier it attacks. Pick the dimension of the quantifier that ordinary tests - and a verification harness written by someone who read only the statement - are least likely to vary:")
for m in sorted(glob.glob("seeded/%s-*/meta.json"%pid)):
    j=json.load(open(m))
    print(" - files %s: %s"%(j.get("files_changed"), (j.get("what_it_breaks") or "")[:420].replace("\n"," ")))
print("\nRoot suite: run it in a private network namespace so that other people's runs on this machine cannot collide with its fixed ports:\n  unshare -n sh -c '. %s/netns.sh; cd %s/repo && GOFLAGS=-mod=mod GOPROXY=off go test -count=1 -timeout 25m .'\n(multicast tests work there too). Never use `git stash`." % (d,d))
PY
  echo "$d"
done
