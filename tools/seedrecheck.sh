#!/bin/bash
# tools/seedrecheck.sh <previous seedcheck log> <seed-out-dir> <Cxx> [tier]
# After a check was strengthened: re-runs only our check against the (already confirmed) seeded change and
# prints the previous JSON summary with the check fields replaced.
set -u
prev=$1; src=$(readlink -f "$2"); id=$3; tier=${4:-quick}
d=$(mktemp -d /tmp/vseed.XXXXXX)
git -C /repo worktree add --detach -q "$d/repo" HEAD || exit 2
trap 'git -C /repo worktree remove --force "$d/repo" 2>/dev/null; rm -rf "$d"' EXIT
git -C "$d/repo" apply "$src/patch.diff" || exit 2
mkdir -p "$d/out"
VERIF_REPO="$d/repo" VERIF_OUT="$d/out" /verif/vcheck "$id" --tier "$tier" > "$d/check.log" 2>&1; rc=$?
sigs=$(grep -h "signature:" "$d/check.log" | sed 's/.*signature: //' | sort -u | head -8 | tr '\n' ';')
tail -1 "$d/check.log" | cut -c1-300
grep '^{"property"' "$prev" | tail -1 | python3 -c "
import json,sys
j=json.loads(sys.stdin.read()); j['first_check_exit']=j['check_exit']; j['check_exit']='$rc'; j['signatures']='$sigs'; j['check_tier']='$tier'
print(json.dumps(j))"
