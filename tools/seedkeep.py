#!/usr/bin/env python3
"""tools/seedkeep.py <seed-out-dir> <name> '<json summary from seedcheck.sh>' [caught_by note]
Archives a confirmed seeded regression under /verif/seeded/<name>/ (patch.diff, demonstration, meta.json)."""
import json, os, shutil, sys
src, name, summ = sys.argv[1], sys.argv[2], json.loads(sys.argv[3])
note = sys.argv[4] if len(sys.argv) > 4 else ""
dst = os.path.join("/verif/seeded", name)
os.makedirs(dst, exist_ok=True)
shutil.copy(os.path.join(src, "patch.diff"), dst)
for f in ["demo_test.go"]:
    if os.path.exists(os.path.join(src, f)):
        shutil.copy(os.path.join(src, f), os.path.join(dst, "demo_test.go.txt"))
if os.path.exists(os.path.join(src, "demo", "main.go")):
    shutil.copy(os.path.join(src, "demo", "main.go"), os.path.join(dst, "demo_main.go.txt"))
agent = {}
try:
    agent = json.load(open(os.path.join(src, "meta.json")))
except Exception as e:
    agent = {"unreadable": str(e)}
meta = {
    "property": summ["property"],
    "produced_by": "independent sub-agent that was given only the property text and a scratch worktree",
    "what_it_breaks": agent.get("what_it_breaks"),
    "needs_to_manifest": agent.get("needs_to_manifest"),
    "files_changed": agent.get("files_changed"),
    "demonstration": agent.get("demo"),
    "why_existing_tests_pass": agent.get("why_existing_tests_pass"),
    "confirmed_by_lead": {
        "how": "tools/seedcheck.sh: fresh worktree of /repo HEAD; demonstration passes without the patch and fails with it; existing tests of the touched packages pass with the patch; then our check is run against the patched tree",
        "demo_without_patch": summ["demo_without_patch"], "demo_with_patch": summ["demo_with_patch"],
        "existing_tests_with_patch": summ["existing_tests_with_patch"], "tested_packages": summ["tested_packages"].strip(),
    },
    "our_check": {"tier": summ["check_tier"], "exit": summ["check_exit"], "exit_before_the_check_was_strengthened": summ.get("first_check_exit"), "signatures": [s for s in summ["signatures"].split(";") if s], "note": note},
}
json.dump(meta, open(os.path.join(dst, "meta.json"), "w"), indent=1)
print("kept", dst)
