#!/bin/bash
# tools/seedsetup.sh Cxx [suffix] — prepare /tmp/seed-<Cxx><suffix> for a seeding sub-agent:
# a scratch worktree of /repo, PROPERTY.txt (only the property text) and INSTRUCTIONS.md.
set -e
id=$1; suf=$2; d=/tmp/seed-$id$suf
VERIF=$(cd "$(dirname "$0")/.." && pwd)
rm -rf "$d"; mkdir -p "$d/out"
git -C /repo worktree prune
git -C /repo worktree add --detach "$d/repo" HEAD >/dev/null 2>&1
python3 - "$id" "$VERIF/properties.jsonl" > "$d/PROPERTY.txt" <<'PY'
import json,sys
for l in open(sys.argv[2]):
    p=json.loads(l)
    if p["id"]==sys.argv[1]:
        print("Title:",p["title"]); print(); print("Statement:",p["statement"]); print()
        print("Quantifier:",p["quantifier"]["text"]); print(); print("Why the existing tests cannot settle it:",p["why_tests_cant"]); print()
        print("Code the property is anchored in:", ", ".join(p["anchors"]["files"]) if isinstance(p["anchors"],dict) else p["anchors"])
PY
sed "s/@ID@/$id$suf/g" "$VERIF/tools/seed-prompt.txt" > "$d/INSTRUCTIONS.md"
echo "$d"
