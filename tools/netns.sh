#!/bin/sh
# private network namespace that mimics the host (lo + eth0 192.0.2.2/24, multicast capable),
# used only to keep the fixed test ports (8554, 8000-8003...) away from other users of this machine.
ip link set lo up
ip link add eth0 type veth peer name eth1
ip link set eth1 multicast off
sysctl -q -w net.ipv6.conf.eth1.disable_ipv6=1
ip addr add 192.0.2.2/24 dev eth0
ip link set eth0 up multicast on
ip link set eth1 up
ip route add default via 192.0.2.1 dev eth0
sleep 3
