#!/bin/bash
# tools/runall.sh [tier]  - run every claimed check once, print one line each (exit code + summary line)
tier=${1:-quick}
cd "$(dirname "$(readlink -f "$0")")/.." || exit 2
ids=$(python3 -c "import json; print(' '.join(c['property_id'] for c in json.load(open('MANIFEST.json'))['checks']))")
bad=0
for c in $ids; do
  t0=$(date +%s)
  out=$(./vcheck $c --tier $tier 2>&1); rc=$?
  t1=$(date +%s)
  echo "$c rc=$rc $((t1-t0))s $(echo "$out" | grep -E "^$c $tier:" | tail -1 | cut -c1-230)"
  [ $rc -ne 0 ] && { bad=$((bad+1)); echo "$out" | grep -E "VIOLATION|signature|HARNESS" | head -5; }
done
echo "not green: $bad"
