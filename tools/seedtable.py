#!/usr/bin/env python3
"""tools/seedtable.py — regenerates the table of section 11.6 of DESIGN.md from seeded/*/meta.json."""
import glob, json, os, re
root = os.path.dirname(os.path.dirname(os.path.abspath(__file__)))
rows = ["| seeded change | what it breaks (agent's words, shortened) | check result | signatures (first ones) |", "|---|---|---|---|"]
for d in sorted(glob.glob(os.path.join(root, "seeded", "*", "meta.json"))):
    m = json.load(open(d)); oc = m["our_check"]
    what = re.sub(r"\s+", " ", str(m.get("what_it_breaks") or "")).replace("|", "/")
    if len(what) > 230: what = what[:227] + "..."
    res = "caught (%s, exit %s)" % (oc["tier"], oc["exit"]) if str(oc["exit"]) == "1" else "MISSED (exit %s)" % oc["exit"]
    if oc.get("note"): res += " - " + re.sub(r"\s+", " ", oc["note"]).replace("|", "/")
    sig = ", ".join("`%s`" % s for s in oc["signatures"][:3]) + (" ..." if len(oc["signatures"]) > 3 else "")
    rows.append("| `%s` | %s | %s | %s |" % (os.path.basename(os.path.dirname(d)), what, res, sig))
tbl = "<!-- seedtable:begin -->\n" + "\n".join(rows) + "\n<!-- seedtable:end -->"
p = os.path.join(root, "DESIGN.md"); s = open(p).read()
if "@SEEDTABLE@" in s: s = s.replace("@SEEDTABLE@", tbl)
else: s = re.sub(r"<!-- seedtable:begin -->.*?<!-- seedtable:end -->", lambda _: tbl, s, flags=re.S)
open(p, "w").write(s); print(len(rows) - 2, "rows")
