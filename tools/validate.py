#!/usr/bin/env python3-vt
import json, sys, glob, jsonschema
ms = json.load(open('/root/.vp/MANIFEST.schema.json')); es = json.load(open('/root/.vp/EVIDENCE.schema.json'))
jsonschema.validate(json.load(open('/verif/MANIFEST.json')), ms)
bad = 0
for f in sorted(glob.glob('/verif/evidence/*.json')):
    try:
        jsonschema.validate(json.load(open(f)), es)
    except Exception as e:
        bad += 1; print("INVALID", f, str(e)[:300])
print("manifest valid; evidence files:", len(glob.glob('/verif/evidence/*.json')), "invalid:", bad)
sys.exit(1 if bad else 0)
