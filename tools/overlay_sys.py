#!/usr/bin/env python3
"""Overlay entries for whole-system checks: every non-test file of the root package and of pkg/rtpreceiver,
pkg/rtpsender, pkg/rtptime that imports "time" is replaced by a generated copy (from the CURRENT working tree)
whose time import is the virtual clock pkg/zverif/vtime. argv: repo work. Prints a JSON object."""
import json, os, re, subprocess, sys
repo, work = sys.argv[1], sys.argv[2]
here = os.path.dirname(os.path.dirname(os.path.abspath(__file__)))
tool = os.path.join(work, "rewrite")
env = dict(os.environ, GOFLAGS="-mod=mod", GOPROXY="off")
subprocess.run(["go", "build", "-o", tool, "./tools/rewrite"], cwd=here, check=True, env=env, stdout=sys.stderr)
rep = {}
dirs = ["", "pkg/rtpreceiver", "pkg/rtpsender", "pkg/rtptime"]
n = 0
for d in dirs:
    full = os.path.join(repo, d)
    for f in sorted(os.listdir(full)):
        if not f.endswith(".go") or f.endswith("_test.go") or f.startswith("zz_verif"):
            continue
        src = os.path.join(full, f)
        txt = open(src).read()
        if not re.search(r'^\s*"time"\s*$', txt, re.M) and 'import "time"' not in txt:
            continue
        dst = os.path.join(work, "vt_" + (d.replace("/", "_") + "_" if d else "") + f)
        subprocess.run([tool, "-time", "-nosync", src, dst], check=True, stdout=sys.stderr)
        rep[src] = dst
        n += 1
if n < 20:
    sys.stderr.write("overlay_sys: only %d files rewritten - source layout changed?\n" % n)
    sys.exit(2)
print(json.dumps(rep))
