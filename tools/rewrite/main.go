// rewrite puts one library source file under the vsched shim: usage: rewrite <in.go> <out.go>.
//   import "sync"            -> import sync ".../pkg/zverif/vsched"   (Mutex, RWMutex, Cond, WaitGroup, Once)
//   go f(x)                  -> vsched.Go(func() { f(x) })            (arguments must be side-effect free)
//   <-c, v, ok := <-c        -> vsched.Recv(c), vsched.Recv2(c)
//   c <- v                   -> vsched.Send(c, v)
//   close(c)                 -> vsched.Close(c)
//   select { ... }           -> switch vsched.Select(hasDefault, cases...) { ... }
// Anything it does not understand is a hard error (exit 2), never skipped.
package main

import (
	"bytes"
	"fmt"
	"go/ast"
	"go/format"
	"go/parser"
	"go/token"
	"os"
	"strconv"
)

const shim = "github.com/bluenviron/gortsplib/v5/pkg/zverif/vsched"

func die(fset *token.FileSet, n ast.Node, f string, a ...any) {
	fmt.Fprintf(os.Stderr, "rewrite: %s: %s\n", fset.Position(n.Pos()), fmt.Sprintf(f, a...))
	os.Exit(2)
}

func sel(name string) ast.Expr { return &ast.SelectorExpr{X: ast.NewIdent("vsched"), Sel: ast.NewIdent(name)} }

func call(name string, args ...ast.Expr) *ast.CallExpr { return &ast.CallExpr{Fun: sel(name), Args: args} }

func main() {
	if len(os.Args) != 3 {
		fmt.Fprintln(os.Stderr, "usage: rewrite in.go out.go")
		os.Exit(2)
	}
	fset := token.NewFileSet()
	f, err := parser.ParseFile(fset, os.Args[1], nil, parser.ParseComments)
	if err != nil {
		fmt.Fprintln(os.Stderr, err)
		os.Exit(2)
	}
	for _, im := range f.Imports {
		if p, _ := strconv.Unquote(im.Path.Value); p == "sync" {
			im.Path.Value = strconv.Quote(shim)
			im.Name = ast.NewIdent("sync")
		}
	}
	used := false
	var rewriteStmts func(list []ast.Stmt) []ast.Stmt
	var rewriteExpr func(e ast.Expr) ast.Expr

	rewriteExpr = func(e ast.Expr) ast.Expr {
		var out ast.Expr = e
		ast.Inspect(e, func(n ast.Node) bool {
			switch x := n.(type) {
			case *ast.FuncLit:
				x.Body.List = rewriteStmts(x.Body.List)
				return false
			}
			return true
		})
		// replace receive expressions and close calls inside e (post-order, via a small recursive copy)
		var walk func(e ast.Expr) ast.Expr
		walk = func(e ast.Expr) ast.Expr {
			switch x := e.(type) {
			case *ast.UnaryExpr:
				x.X = walk(x.X)
				if x.Op == token.ARROW {
					used = true
					return call("Recv", x.X)
				}
			case *ast.CallExpr:
				for i := range x.Args {
					x.Args[i] = walk(x.Args[i])
				}
				if id, ok := x.Fun.(*ast.Ident); ok && id.Name == "close" && len(x.Args) == 1 {
					used = true
					return call("Close", x.Args[0])
				}
				x.Fun = walk(x.Fun)
			case *ast.BinaryExpr:
				x.X, x.Y = walk(x.X), walk(x.Y)
			case *ast.ParenExpr:
				x.X = walk(x.X)
			case *ast.SelectorExpr:
				x.X = walk(x.X)
			case *ast.StarExpr:
				x.X = walk(x.X)
			case *ast.IndexExpr:
				x.X, x.Index = walk(x.X), walk(x.Index)
			case *ast.TypeAssertExpr:
				x.X = walk(x.X)
			case *ast.CompositeLit:
				for i := range x.Elts {
					x.Elts[i] = walk(x.Elts[i])
				}
			case *ast.KeyValueExpr:
				x.Value = walk(x.Value)
			}
			return e
		}
		out = walk(e)
		return out
	}

	var rewriteStmt func(s ast.Stmt) ast.Stmt
	rewriteStmt = func(s ast.Stmt) ast.Stmt {
		switch x := s.(type) {
		case *ast.GoStmt:
			used = true
			for _, a := range x.Call.Args {
				switch a.(type) {
				case *ast.Ident, *ast.SelectorExpr, *ast.BasicLit:
				default:
					die(fset, a, "go statement with a non-trivial argument")
				}
			}
			if fl, ok := x.Call.Fun.(*ast.FuncLit); ok {
				fl.Body.List = rewriteStmts(fl.Body.List)
			}
			body := &ast.BlockStmt{List: []ast.Stmt{&ast.ExprStmt{X: x.Call}}}
			return &ast.ExprStmt{X: call("Go", &ast.FuncLit{Type: &ast.FuncType{Params: &ast.FieldList{}}, Body: body})}
		case *ast.SendStmt:
			used = true
			return &ast.ExprStmt{X: call("Send", rewriteExpr(x.Chan), rewriteExpr(x.Value))}
		case *ast.ExprStmt:
			x.X = rewriteExpr(x.X)
		case *ast.AssignStmt:
			if len(x.Lhs) == 2 && len(x.Rhs) == 1 {
				if u, ok := x.Rhs[0].(*ast.UnaryExpr); ok && u.Op == token.ARROW {
					used = true
					x.Rhs[0] = call("Recv2", rewriteExpr(u.X))
					return x
				}
			}
			for i := range x.Rhs {
				x.Rhs[i] = rewriteExpr(x.Rhs[i])
			}
		case *ast.ReturnStmt:
			for i := range x.Results {
				x.Results[i] = rewriteExpr(x.Results[i])
			}
		case *ast.DeferStmt:
			if id, ok := x.Call.Fun.(*ast.Ident); ok && id.Name == "close" && len(x.Call.Args) == 1 {
				used = true
				x.Call = call("Close", x.Call.Args[0])
			} else if fl, ok := x.Call.Fun.(*ast.FuncLit); ok {
				fl.Body.List = rewriteStmts(fl.Body.List)
			}
		case *ast.BlockStmt:
			x.List = rewriteStmts(x.List)
		case *ast.IfStmt:
			if x.Init != nil {
				x.Init = rewriteStmt(x.Init)
			}
			x.Cond = rewriteExpr(x.Cond)
			x.Body.List = rewriteStmts(x.Body.List)
			if x.Else != nil {
				x.Else = rewriteStmt(x.Else)
			}
		case *ast.ForStmt:
			if x.Cond != nil {
				x.Cond = rewriteExpr(x.Cond)
			}
			x.Body.List = rewriteStmts(x.Body.List)
		case *ast.RangeStmt:
			x.Body.List = rewriteStmts(x.Body.List)
		case *ast.SwitchStmt:
			for _, c := range x.Body.List {
				cc := c.(*ast.CaseClause)
				cc.Body = rewriteStmts(cc.Body)
			}
		case *ast.TypeSwitchStmt:
			for _, c := range x.Body.List {
				cc := c.(*ast.CaseClause)
				cc.Body = rewriteStmts(cc.Body)
			}
		case *ast.LabeledStmt:
			x.Stmt = rewriteStmt(x.Stmt)
		case *ast.SelectStmt:
			used = true
			hasDefault := "false"
			var args []ast.Expr
			var clauses []ast.Stmt
			idx := 0
			for _, c := range x.Body.List {
				cc := c.(*ast.CommClause)
				body := rewriteStmts(cc.Body)
				if cc.Comm == nil {
					hasDefault = "true"
					clauses = append(clauses, &ast.CaseClause{List: []ast.Expr{&ast.BasicLit{Kind: token.INT, Value: "-1"}}, Body: body})
					continue
				}
				lit := &ast.BasicLit{Kind: token.INT, Value: strconv.Itoa(idx)}
				idx++
				switch cm := cc.Comm.(type) {
				case *ast.ExprStmt: // case <-ch:
					u, ok := cm.X.(*ast.UnaryExpr)
					if !ok || u.Op != token.ARROW {
						die(fset, cm, "unsupported select arm")
					}
					args = append(args, call("RecvCase", u.X))
					body = append([]ast.Stmt{&ast.ExprStmt{X: call("Recv", u.X)}}, body...)
				case *ast.AssignStmt: // case v := <-ch:  /  case v, ok := <-ch:
					u, ok := cm.Rhs[0].(*ast.UnaryExpr)
					if !ok || u.Op != token.ARROW {
						die(fset, cm, "unsupported select arm")
					}
					args = append(args, call("RecvCase", u.X))
					fn := "Recv"
					if len(cm.Lhs) == 2 {
						fn = "Recv2"
					}
					body = append([]ast.Stmt{&ast.AssignStmt{Lhs: cm.Lhs, Tok: cm.Tok, Rhs: []ast.Expr{call(fn, u.X)}}}, body...)
				case *ast.SendStmt:
					args = append(args, call("SendCase", cm.Chan))
					body = append([]ast.Stmt{&ast.ExprStmt{X: call("Send", cm.Chan, cm.Value)}}, body...)
				default:
					die(fset, cc, "unsupported select arm")
				}
				clauses = append(clauses, &ast.CaseClause{List: []ast.Expr{lit}, Body: body})
			}
			args = append([]ast.Expr{ast.NewIdent(hasDefault)}, args...)
			return &ast.SwitchStmt{Tag: call("Select", args...), Body: &ast.BlockStmt{List: clauses}}
		}
		return s
	}
	rewriteStmts = func(list []ast.Stmt) []ast.Stmt {
		for i := range list {
			list[i] = rewriteStmt(list[i])
		}
		return list
	}
	for _, d := range f.Decls {
		if fd, ok := d.(*ast.FuncDecl); ok && fd.Body != nil {
			fd.Body.List = rewriteStmts(fd.Body.List)
		}
	}
	if used {
		spec := &ast.ImportSpec{Name: ast.NewIdent("vsched"), Path: &ast.BasicLit{Kind: token.STRING, Value: strconv.Quote(shim)}}
		f.Decls = append([]ast.Decl{&ast.GenDecl{Tok: token.IMPORT, Specs: []ast.Spec{spec}}}, f.Decls...)
		f.Imports = append(f.Imports, spec)
	}
	var buf bytes.Buffer
	buf.WriteString("// Code generated by /verif/tools/rewrite from " + os.Args[1] + "; DO NOT EDIT.\n")
	if err := format.Node(&buf, fset, f); err != nil {
		fmt.Fprintln(os.Stderr, err)
		os.Exit(2)
	}
	if err := os.WriteFile(os.Args[2], buf.Bytes(), 0o644); err != nil {
		fmt.Fprintln(os.Stderr, err)
		os.Exit(2)
	}
}
