#!/bin/bash
# tools/scoutsetup.sh Cxx - prepare /tmp/scout-<Cxx> for a defect-scouting sub-agent (property text + scratch worktree only)
set -e
id=$1; d=/tmp/scout-$id
VERIF=$(cd "$(dirname "$0")/.." && pwd)
rm -rf "$d"; mkdir -p "$d/out"
git -C /repo worktree prune
git -C /repo worktree add --detach "$d/repo" HEAD >/dev/null 2>&1
python3 - "$id" "$VERIF/properties.jsonl" > "$d/PROPERTY.txt" <<'PY'
import json,sys
for l in open(sys.argv[2]):
    p=json.loads(l)
    if p["id"]==sys.argv[1]:
        print("Title:",p["title"]); print(); print("Statement:",p["statement"]); print()
        print("Quantifier:",p["quantifier"]["text"]); print(); print("Why the existing tests cannot settle it:",p["why_tests_cant"]); print()
        print("Code the property is anchored in:", ", ".join(p["anchors"]["files"]) if isinstance(p["anchors"],dict) else p["anchors"])
PY
cp "$VERIF/tools/netns.sh" "$d/netns.sh"
sed "s/@ID@/$id/g" "$VERIF/tools/scout-prompt.txt" > "$d/INSTRUCTIONS.md"
echo "$d"
