#!/bin/bash
# tools/soak.sh [rounds] [tier] - runs every check repeatedly on the unchanged tree and lists every run that
# did not exit 0 (false-alarm hunt; a second copy of the load makes rare races more likely)
rounds=${1:-3}; tier=${2:-quick}
cd "$(dirname "$(readlink -f "$0")")/.." || exit 2
ids=$(python3 -c "import json; print(' '.join(c['property_id'] for c in json.load(open('MANIFEST.json'))['checks']))")
bad=0
for r in $(seq 1 $rounds); do
  for c in $ids; do
    out=$(./vcheck $c --tier $tier 2>&1); rc=$?
    if [ $rc -ne 0 ]; then bad=$((bad+1)); echo "round $r $c rc=$rc"; echo "$out" | grep -E "VIOLATION|signature|HARNESS|FLAKY" | head -6; fi
  done
  echo "round $r done, alarms so far: $bad"
done
