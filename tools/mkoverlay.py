#!/usr/bin/env python3
"""Emit a `go build -overlay` JSON on stdout.

 * every file /verif/hooks/<rel>/zz_verif_*.go is added to /repo/<rel>/ (accessor files, //go:build verif)
 * every directory /verif/shim/<name> becomes the virtual package
   github.com/bluenviron/gortsplib/v5/pkg/zverif/<name>
 * if checks/<id>/overlay.py exists it is run (argv: repo work) and must print a JSON object of extra
   Replace entries (generated rewrites of repo files, built from the *current* working tree).
"""
import json, os, subprocess, sys
repo, work, checkdir = sys.argv[1], sys.argv[2], sys.argv[3]
here = os.path.dirname(os.path.dirname(os.path.abspath(__file__)))
rep = {}
hooks = os.path.join(here, "hooks")
for d, _, fs in os.walk(hooks):
    for f in fs:
        if f.startswith("zz_verif_") and f.endswith(".go"):
            rel = os.path.relpath(d, hooks)
            tgt = os.path.normpath(os.path.join(repo, rel, f))
            if os.path.isdir(os.path.dirname(tgt)):
                rep[tgt] = os.path.join(d, f)
shim = os.path.join(here, "shim")
if os.path.isdir(shim):
    for name in sorted(os.listdir(shim)):
        p = os.path.join(shim, name)
        if os.path.isdir(p):
            for f in sorted(os.listdir(p)):
                if f.endswith(".go") and not f.endswith("_test.go"):
                    rep[os.path.join(repo, "pkg", "zverif", name, f)] = os.path.join(p, f)
extra = os.path.join(here, checkdir, "overlay.py")
if os.path.exists(extra):
    out = subprocess.run([sys.executable, extra, repo, work], check=True, capture_output=True, text=True).stdout
    rep.update(json.loads(out))
json.dump({"Replace": rep}, sys.stdout, indent=1)
