#!/bin/bash
# tools/seedcheck.sh <seed-out-dir> <Cxx> [tier]
# Independently confirms a seeded regression (patch.diff + demo + meta.json produced by a sub-agent that saw only the
# property text) in a fresh scratch worktree, then runs our check against it. Prints a JSON summary on the last line.
set -u
export GOFLAGS=-mod=mod GOPROXY=off
unset GOSUMDB
src=$(readlink -f "$1"); id=$2; tier=${3:-quick}
d=$(mktemp -d /tmp/vseed.XXXXXX)
git -C /repo worktree add --detach -q "$d/repo" HEAD || exit 2
trap 'git -C /repo worktree remove --force "$d/repo" 2>/dev/null; rm -rf "$d"' EXIT
cd "$d/repo" || exit 2
applies=no; demo_with=unknown; demo_without=unknown; tests=unknown; check_rc=unknown; sigs=""
if git apply --check "$src/patch.diff" 2>"$d/apply.err"; then applies=yes; else cat "$d/apply.err"; fi
pkgdir=$(python3 -c "import json;print(json.load(open('$src/meta.json')).get('demo',{}).get('package_dir','.'))" 2>/dev/null)
pkgdir=${pkgdir#/tmp/seed-*/repo/}; pkgdir=${pkgdir#./}; [ -z "$pkgdir" ] && pkgdir=.
rundemo() {
  if [ -f "$src/demo_test.go" ]; then
    cp "$src/demo_test.go" "$d/repo/$pkgdir/zz_seed_demo_test.go"
    # the tests of the demonstration file, by name (not every agent calls them Demo... / Seed...)
    pat=$(grep -oE '^func (Test[A-Za-z0-9_]+)' "$src/demo_test.go" | sed 's/^func //' | paste -sd'|')
    # in a private network namespace: demonstrations of different seeds use the same fixed ports (8654 ...)
    # and several confirmations run at the same time
    go test -c -o "$d/demo.test" "./$pkgdir/" > "$d/demo.log" 2>&1 && \
      unshare -n sh -c ". /verif/tools/netns.sh; cd $d/repo/$pkgdir && timeout 900 $d/demo.test -test.count=1 -test.run '^(${pat:-Demo|Seed})\$'" >> "$d/demo.log" 2>&1; rc=$?
    grep -q "no tests to run" "$d/demo.log" && rc=98
    rm -f "$d/repo/$pkgdir/zz_seed_demo_test.go"
  elif [ -f "$src/demo/main.go" ]; then
    mkdir -p "$d/repo/zz_demo"; cp "$src/demo/main.go" "$d/repo/zz_demo/main.go"
    timeout 900 go run ./zz_demo > "$d/demo.log" 2>&1; rc=$?
    rm -rf "$d/repo/zz_demo"
  else rc=99; fi
  return $rc
}
if [ $applies = yes ]; then
  rundemo; [ $? -eq 0 ] && demo_without=pass || { demo_without=FAIL; tail -5 "$d/demo.log"; }
  git apply "$src/patch.diff"
  rundemo; rcw=$?; [ $rcw -ne 0 ] && [ $rcw -ne 99 ] && [ $rcw -ne 98 ] && demo_with=fail || { demo_with=PASS; tail -5 "$d/demo.log"; }
  pkgs=$(git diff --name-only | xargs -n1 dirname | sort -u | sed 's#^#./#' | tr '\n' ' ')
  if echo " $pkgs " | grep -q " \./\. "; then
    # the root suite binds fixed ports and other people's suites run on this machine: run it in a private
    # network namespace (multicast does not work there: those tests are run on the host afterwards, with retries)
    others=$(echo "$pkgs" | sed 's# \./\. # #; s#^\./\. ##')
    go test -c -o "$d/root.test" . > "$d/tests.log" 2>&1
    ok=no
    for try in 1 2; do
      if unshare -n sh -c ". /verif/tools/netns.sh; cd $d/repo && timeout 1500 $d/root.test -test.count=1 -test.timeout 20m" >> "$d/tests.log" 2>&1; then ok=yes; break; fi
    done
    if [ $ok = yes ] && { [ -z "$(echo $others)" ] || go test -count=1 $others >> "$d/tests.log" 2>&1; }; then
      tests="pass (whole root suite, unedited, in a private network namespace with lo + a multicast-capable veth, tools/netns.sh)"
    else tests=FAIL; grep -E "^(--- FAIL|FAIL|panic)" "$d/tests.log" | head -5; fi
  elif timeout 1500 go test -count=1 $pkgs > "$d/tests.log" 2>&1; then tests=pass; else
    # the machine is busy: one retry for tests that use real sockets
    if timeout 1500 go test -count=1 $pkgs > "$d/tests.log" 2>&1; then tests=pass-on-retry; else tests=FAIL; grep -E "^(--- FAIL|FAIL|panic)" "$d/tests.log" | head -5; fi
  fi
  mkdir -p "$d/out"
  VERIF_REPO="$d/repo" VERIF_OUT="$d/out" /verif/vcheck "$id" --tier "$tier" > "$d/check.log" 2>&1; check_rc=$?
  sigs=$(grep -h "signature:" "$d/check.log" | sed 's/.*signature: //' | sort -u | head -8 | tr '\n' ';')
  tail -2 "$d/check.log" | cut -c1-300
fi
echo "{\"property\":\"$id\",\"patch_applies\":\"$applies\",\"demo_without_patch\":\"$demo_without\",\"demo_with_patch\":\"$demo_with\",\"existing_tests_with_patch\":\"$tests\",\"tested_packages\":\"${pkgs:-}\",\"check_tier\":\"$tier\",\"check_exit\":\"$check_rc\",\"signatures\":\"$sigs\"}"
