#!/bin/bash
# tools/mutrun.sh <patch.diff> <Cxx> [tier]  — run one check against a scratch copy of /repo with a patch applied.
# Nothing in /repo or /verif/evidence is touched; the scratch copy and its outputs are removed afterwards.
set -u
patch=$(readlink -f "$1"); id=$2; tier=${3:-quick}
d=$(mktemp -d /tmp/vmut.XXXXXX)
git -C /repo worktree add --detach -q "$d/repo" HEAD || exit 2
trap 'git -C /repo worktree remove --force "$d/repo" 2>/dev/null; rm -rf "$d"' EXIT
git -C "$d/repo" apply "$patch" || { echo "PATCH DOES NOT APPLY"; exit 2; }
mkdir -p "$d/out"
VERIF_REPO="$d/repo" VERIF_OUT="$d/out" /verif/vcheck "$id" --tier "$tier" 2>&1 | sed "s#$d#SCRATCH#g" | tail -${MUT_TAIL:-8}
rc=${PIPESTATUS[0]}
echo "mutant $(basename "$(dirname "$patch")")/$(basename "$patch") on $id: exit $rc"
exit $rc
