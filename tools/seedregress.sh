#!/bin/bash
# tools/seedregress.sh [name-filter] - runs, for every archived seeded change, the property's quick check
# against a scratch worktree with that change applied; prints one line each and the list of those that
# are no longer caught (exit != 1).
cd "$(dirname "$(readlink -f "$0")")/.." || exit 2
miss=0
for d in seeded/*${1:-}*/; do
  n=$(basename "$d"); id=$(python3 -c "import json;print(json.load(open('$d/meta.json'))['property'])")
  out=$(tools/mutrun.sh "$d/patch.diff" "$id" 2>&1); rc=$(echo "$out" | grep -o "exit [0-9]*$" | tail -1 | cut -d' ' -f2)
  echo "$n $id exit=$rc $(echo "$out" | grep -E "^$id quick:" | tail -1 | grep -o 'violations=[0-9]*')"
  [ "$rc" = "1" ] || { miss=$((miss+1)); echo "  NOT CAUGHT: $n"; }
done
echo "not caught: $miss"
