// Package evid is the shared plumbing of every check: tier/seed/replay flags, counters, the
// evidence file (EVIDENCE.schema.json), replay files, the known-findings file and the exit code.
//
// Contract (MANIFEST.schema.json): exit 0 = property held on everything explored; exit 1 + a line
// "VIOLATION property=<id> replay=<path>" = violation; exit 2 = the machinery itself is broken.
package evid

import (
	"bufio"
	"crypto/sha256"
	"encoding/hex"
	"encoding/json"
	"flag"
	"fmt"
	"hash/fnv"
	"os"
	"path/filepath"
	"sort"
	"strconv"
	"strings"
	"sync"
	"sync/atomic"
	"time"
)

// Root is the directory that holds evidence/, replays/ and KNOWN_FINDINGS.txt.
func Root() string {
	if v := os.Getenv("VERIF_ROOT"); v != "" {
		return v
	}
	return "/verif"
}

const nshards = 64

type shard struct {
	mu sync.Mutex
	m  map[uint64]struct{}
}

// Set is a concurrent set of 64-bit hashes with a size cap (counting conservatively above it).
type Set struct {
	sh  [nshards]shard
	n   atomic.Int64
	cap int64
}

// NewSet allocates a set holding at most max entries.
func NewSet(max int64) *Set {
	s := &Set{cap: max}
	for i := range s.sh {
		s.sh[i].m = map[uint64]struct{}{}
	}
	return s
}

// OutRoot is where evidence/ and replays/ are written (VERIF_OUT overrides it, used when a check is
// pointed at a scratch copy of the repository so that committed evidence is not overwritten).
func OutRoot() string {
	if v := os.Getenv("VERIF_OUT"); v != "" {
		return v
	}
	return Root()
}

// Hash hashes a string.
func Hash(s string) uint64 {
	h := fnv.New64a()
	h.Write([]byte(s))
	return h.Sum64()
}

// AddHash inserts h; it returns true when h was new.
func (s *Set) AddHash(h uint64) bool {
	sh := &s.sh[h%nshards]
	sh.mu.Lock()
	defer sh.mu.Unlock()
	if _, ok := sh.m[h]; ok {
		return false
	}
	if s.n.Load() >= s.cap {
		return false
	}
	sh.m[h] = struct{}{}
	s.n.Add(1)
	return true
}

// Add inserts a string key.
func (s *Set) Add(k string) bool { return s.AddHash(Hash(k)) }

// Len returns the number of distinct entries.
func (s *Set) Len() int64 { return s.n.Load() }

type finding struct {
	prop, key, text string
}

// Run is one invocation of one check.
type Run struct {
	Prop   string
	Level  string
	Tier   string
	Seed   int64
	Replay string // path of a replay file when invoked with --replay

	start time.Time

	evals       atomic.Int64
	transitions atomic.Int64
	traces      atomic.Int64
	nontrivial  *Set
	states      *Set
	outcomes    *Set

	mu          sync.Mutex
	samples     []any
	rule        string
	assumptions []string
	extra       map[string]any
	caps        []string
	exhaustive  bool
	violations  int
	vioSeen     map[string]bool
	knownSeen   map[string]int
	bySig       map[string]int
	known       []finding
	flaky       int
	MaxVio      int // stop recording new replay files after this many (still counted)

	HangLimit time.Duration
	guards    sync.Map
	watchOnce sync.Once
}

// New parses the command line (--tier quick|thorough, --replay <file>) and the environment
// (VERIF_TIER, VERIF_SEED) and returns the run. level is the evidence level.
func New(prop, level string) *Run {
	r := &Run{Prop: prop, Level: level, start: time.Now(), exhaustive: true, MaxVio: 5}
	tier := flag.String("tier", "", "quick or thorough")
	replay := flag.String("replay", "", "replay file")
	if !flag.Parsed() {
		flag.Parse()
	}
	r.Tier = *tier
	if r.Tier == "" {
		r.Tier = os.Getenv("VERIF_TIER")
	}
	if r.Tier != "thorough" {
		r.Tier = "quick"
	}
	r.Replay = *replay
	if s := os.Getenv("VERIF_SEED"); s != "" {
		r.Seed, _ = strconv.ParseInt(s, 10, 64)
	}
	r.nontrivial = NewSet(8 << 20)
	r.states = NewSet(8 << 20)
	r.outcomes = NewSet(8 << 20)
	r.extra = map[string]any{}
	r.vioSeen = map[string]bool{}
	r.knownSeen = map[string]int{}
	r.bySig = map[string]int{}
	r.loadKnown()
	return r
}

// Thorough reports whether the thorough tier was requested.
func (r *Run) Thorough() bool { return r.Tier == "thorough" }

func (r *Run) loadKnown() {
	f, err := os.Open(filepath.Join(Root(), "KNOWN_FINDINGS.txt"))
	if err != nil {
		return
	}
	defer f.Close()
	sc := bufio.NewScanner(f)
	sc.Buffer(make([]byte, 1<<20), 1<<20)
	for sc.Scan() {
		line := strings.TrimSpace(sc.Text())
		if !strings.HasPrefix(line, "open:") {
			continue // "fixed:" lines and comments suppress nothing
		}
		rest := strings.TrimSpace(strings.TrimPrefix(line, "open:"))
		head, text, _ := strings.Cut(rest, "::")
		var prop, key string
		for _, f := range strings.Fields(head) {
			if v, ok := strings.CutPrefix(f, "property="); ok {
				prop = v
			}
			if v, ok := strings.CutPrefix(f, "key="); ok {
				key = v
			}
		}
		if prop == r.Prop && key != "" {
			r.known = append(r.known, finding{prop, key, strings.TrimSpace(text)})
		}
	}
}

// Eval counts n evaluated cases.
func (r *Run) Eval(n int64) { r.evals.Add(n) }

// Evals returns the count so far.
func (r *Run) Evals() int64 { return r.evals.Load() }

// Transition counts n executed transitions (steps between states).
func (r *Run) Transition(n int64) { r.transitions.Add(n) }

// Trace counts n complete paths run on the implementation itself.
func (r *Run) Trace(n int64) { r.traces.Add(n) }

// Nontrivial records a distinct, non-trivial case (by the rule set with Rule).
func (r *Run) Nontrivial(key string) { r.nontrivial.Add(key) }

// NontrivialHash is Nontrivial for a precomputed hash.
func (r *Run) NontrivialHash(h uint64) { r.nontrivial.AddHash(h) }

// State records a distinct canonical state; it returns true when the state is new.
func (r *Run) State(key string) bool { return r.states.Add(key) }

// StateHash is State for a precomputed hash.
func (r *Run) StateHash(h uint64) bool { return r.states.AddHash(h) }

// OutcomeHash records a distinct observed outcome by hash.
func (r *Run) OutcomeHash(h uint64) { r.outcomes.AddHash(h) }

// Outcome records a distinct observed outcome.
func (r *Run) Outcome(key string) { r.outcomes.Add(key) }

// Rule sets the text that says how cases are enumerated and what counts as non-trivial.
func (r *Run) Rule(s string) { r.mu.Lock(); r.rule = s; r.mu.Unlock() }

// Assume records an assumption / trusted-base item.
func (r *Run) Assume(s string) { r.mu.Lock(); r.assumptions = append(r.assumptions, s); r.mu.Unlock() }

// Sample keeps v as one of the written-out cases (at most 12 are kept).
func (r *Run) Sample(v any) {
	r.mu.Lock()
	if len(r.samples) < 12 {
		r.samples = append(r.samples, v)
	}
	r.mu.Unlock()
}

// NeedSample reports whether more samples are wanted (cheap pre-check).
func (r *Run) NeedSample() bool {
	r.mu.Lock()
	defer r.mu.Unlock()
	return len(r.samples) < 12
}

// Set stores an extra coverage key.
func (r *Run) Set(k string, v any) { r.mu.Lock(); r.extra[k] = v; r.mu.Unlock() }

// AddInt adds to an integer extra coverage key.
func (r *Run) AddInt(k string, n int64) {
	r.mu.Lock()
	cur, _ := r.extra[k].(int64)
	r.extra[k] = cur + n
	r.mu.Unlock()
}

// Cap records that a cap (time, count) stopped part of the enumeration: the run is not exhaustive.
func (r *Run) Cap(what string) {
	r.mu.Lock()
	r.caps = append(r.caps, what)
	r.exhaustive = false
	r.mu.Unlock()
}

// NotExhaustive marks the space as not completely enumerated without naming a cap.
func (r *Run) NotExhaustive() { r.mu.Lock(); r.exhaustive = false; r.mu.Unlock() }

// Elapsed returns the time since the run started.
func (r *Run) Elapsed() time.Duration { return time.Since(r.start) }

// Deadline reports whether d has elapsed since the start (internal deadlines exit 0, non-exhaustive).
func (r *Run) Deadline(d time.Duration) bool { return time.Since(r.start) > d }

// Violation reports a violation with signature sig (matched against KNOWN_FINDINGS.txt by prefix)
// and a replayable description. It returns true when the violation is new (not a known finding).
func (r *Run) Violation(sig string, detail any) bool {
	r.mu.Lock()
	defer r.mu.Unlock()
	for _, k := range r.known {
		if sig == k.key || strings.HasPrefix(sig, k.key+"/") {
			if r.knownSeen[k.key] == 0 {
				fmt.Printf("KNOWN-FINDING: property=%s %s (key=%s)\n", r.Prop, k.text, k.key)
			}
			r.knownSeen[k.key]++
			return false
		}
	}
	r.violations++
	r.bySig[sig]++
	if r.vioSeen[sig] || len(r.vioSeen) >= r.MaxVio {
		return true
	}
	r.vioSeen[sig] = true
	body, _ := json.MarshalIndent(map[string]any{
		"property": r.Prop, "signature": sig, "tier": r.Tier, "detail": detail,
	}, "", " ")
	sum := sha256.Sum256(body)
	dir := filepath.Join(OutRoot(), "replays")
	os.MkdirAll(dir, 0o755)
	path := filepath.Join(dir, fmt.Sprintf("%s-%s.json", r.Prop, hex.EncodeToString(sum[:6])))
	if err := os.WriteFile(path, body, 0o644); err != nil {
		fmt.Fprintf(os.Stderr, "cannot write replay: %v\n", err)
	}
	fmt.Printf("VIOLATION property=%s replay=%s\n", r.Prop, path)
	fmt.Printf("  signature: %s\n", sig)
	return true
}

// IsKnown reports whether sig matches an open known finding (no replay needed before reporting it).
func (r *Run) IsKnown(sig string) bool {
	for _, k := range r.known {
		if sig == k.key || strings.HasPrefix(sig, k.key+"/") {
			return true
		}
	}
	return false
}

// Flaky records a violation that did not reproduce (harness bug, not an alarm).
func (r *Run) Flaky(what string) {
	r.mu.Lock()
	r.flaky++
	r.exhaustive = false
	r.caps = append(r.caps, "FLAKY: "+what)
	r.mu.Unlock()
	fmt.Fprintf(os.Stderr, "FLAKY (not reported as violation): %s\n", what)
}

// Guard marks the beginning of one execution of library code. If End is not called within the hang
// limit (default 30 s of wall clock for a case that normally takes micro- or milliseconds; used only
// as a hang detector, never as a timing oracle), the watchdog reports a "hang" violation carrying the
// detail, writes the evidence and exits 1 — a library loop that never returns cannot be interrupted
// from inside a Go process, so the process ends.
type Guard struct {
	r      *Run
	t      atomic.Int64
	detail func() any
	sig    string
}

// Begin registers an execution with the watchdog.
func (r *Run) Begin(sig string, detail func() any) *Guard {
	g := &Guard{r: r, detail: detail, sig: sig}
	g.Touch()
	r.guards.Store(g, struct{}{})
	r.watchOnce.Do(func() { go r.watch() })
	return g
}

// Touch restarts the guard's clock (one guard reused for a stream of short executions).
func (g *Guard) Touch() { g.t.Store(time.Now().UnixNano()) }

// End unregisters the execution.
func (g *Guard) End() { g.r.guards.Delete(g) }

func (r *Run) watch() {
	limit := r.HangLimit
	if limit == 0 {
		limit = 30 * time.Second
	}
	for {
		time.Sleep(limit / 10)
		var stuck *Guard
		r.guards.Range(func(k, _ any) bool {
			g := k.(*Guard)
			if time.Since(time.Unix(0, g.t.Load())) > limit {
				stuck = g
				return false
			}
			return true
		})
		if stuck != nil {
			r.Violation(stuck.sig+"/hang", map[string]any{"hang_after_s": limit.Seconds(), "case": stuck.detail()})
			r.Cap("stopped by the hang detector")
			r.Finish()
		}
	}
}

// Violations returns the number of new violations so far.
func (r *Run) Violations() int { r.mu.Lock(); defer r.mu.Unlock(); return r.violations }

// Fatal is a harness error: exit 2, never confused with a violation.
func (r *Run) Fatal(format string, a ...any) {
	fmt.Fprintf(os.Stderr, "HARNESS-ERROR property=%s: %s\n", r.Prop, fmt.Sprintf(format, a...))
	os.Exit(2)
}

// Finish writes the evidence file and exits with the verdict.
func (r *Run) Finish() {
	r.mu.Lock()
	cov := map[string]any{
		"evaluations":         r.evals.Load(),
		"distinct_nontrivial": r.nontrivial.Len(),
		"rule":                r.rule,
		"samples":             r.samples,
		"exhaustive":          r.exhaustive,
		"distinct_outcomes":   r.outcomes.Len(),
	}
	if r.Level == "model_checking" {
		cov["states"] = r.states.Len()
		cov["transitions"] = r.transitions.Load()
		cov["traces_validated_against_impl"] = r.traces.Load()
	}
	if len(r.caps) > 0 {
		cov["caps_hit"] = r.caps
	}
	kf := []string{}
	for k, n := range r.knownSeen {
		kf = append(kf, fmt.Sprintf("%s x%d", k, n))
	}
	sort.Strings(kf)
	cov["known_findings_matched"] = kf
	if len(r.bySig) > 0 {
		cov["violations_by_signature"] = r.bySig
	}
	if r.flaky > 0 {
		cov["flaky"] = r.flaky
	}
	for k, v := range r.extra {
		cov[k] = v
	}
	if len(r.samples) == 0 {
		cov["samples"] = []any{"(no case was explored)"}
	}
	ev := map[string]any{
		"property_id": r.Prop,
		"tier":        r.Tier,
		"seed":        r.Seed,
		"level":       r.Level,
		"coverage":    cov,
		"assumptions": r.assumptions,
		"wall_s":      float64(int(time.Since(r.start).Seconds()*100)) / 100,
		"violations":  r.violations,
	}
	vio := r.violations
	r.mu.Unlock()
	if r.Replay == "" {
		dir := filepath.Join(OutRoot(), "evidence")
		os.MkdirAll(dir, 0o755)
		b, err := json.MarshalIndent(ev, "", " ")
		if err != nil {
			r.Fatal("evidence not serialisable: %v", err)
		}
		if err := os.WriteFile(filepath.Join(dir, r.Prop+".json"), append(b, '\n'), 0o644); err != nil {
			r.Fatal("cannot write evidence: %v", err)
		}
	}
	fmt.Printf("%s %s: evaluations=%d distinct_nontrivial=%d states=%d transitions=%d outcomes=%d exhaustive=%v violations=%d known=%v wall=%.1fs\n",
		r.Prop, r.Tier, r.evals.Load(), r.nontrivial.Len(), r.states.Len(), r.transitions.Load(), r.outcomes.Len(),
		cov["exhaustive"], vio, kf, time.Since(r.start).Seconds())
	if vio > 0 {
		os.Exit(1)
	}
	os.Exit(0)
}

// LoadReplay reads the "detail" member of a replay file into v.
func LoadReplay(path string, v any) error {
	b, err := os.ReadFile(path)
	if err != nil {
		return err
	}
	var w struct {
		Detail json.RawMessage `json:"detail"`
	}
	if err := json.Unmarshal(b, &w); err != nil {
		return err
	}
	return json.Unmarshal(w.Detail, v)
}

// Parallel runs f(i) for i in [0,n) on up to workers goroutines (0 = GOMAXPROCS).
func Parallel(n, workers int, f func(i int)) {
	if workers <= 0 {
		workers = 16
	}
	var next atomic.Int64
	var wg sync.WaitGroup
	for w := 0; w < workers; w++ {
		wg.Add(1)
		go func() {
			defer wg.Done()
			for {
				i := int(next.Add(1) - 1)
				if i >= n {
					return
				}
				f(i)
			}
		}()
	}
	wg.Wait()
}
