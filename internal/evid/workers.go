package evid

import (
	"bufio"
	"bytes"
	"encoding/json"
	"fmt"
	"io"
	"os"
	"os/exec"
	"sync"
	"time"
)

// Worker subprocesses: whole-system executions run real library goroutines; a panic in one of them,
// a fatal runtime error or a hang cannot be recovered inside the process. The parent therefore farms
// jobs out to copies of itself (argv[1] == "--evid-worker"), attributes a crash or a stall to the job
// the child last announced, and restarts the child for the remaining jobs.

// JobResult is the outcome of one job.
type JobResult struct {
	Index   int
	Output  json.RawMessage
	Crashed bool   // the worker process died while running this job
	Stalled bool   // the worker made no progress for the stall limit and was killed
	Stderr  string // tail of the worker's stderr for crashed/stalled jobs
}

// IsWorker reports whether this process is a worker.
func IsWorker() bool { return len(os.Args) > 1 && os.Args[1] == "--evid-worker" }

// ServeWorker runs the worker loop: one JSON job per stdin line, one result per stdout line.
func ServeWorker(fn func(job json.RawMessage) any) {
	in := bufio.NewReaderSize(os.Stdin, 1<<20)
	out := bufio.NewWriter(os.Stdout)
	for {
		line, err := in.ReadBytes('\n')
		if len(bytes.TrimSpace(line)) > 0 {
			var env struct {
				I   int             `json:"i"`
				Job json.RawMessage `json:"job"`
			}
			if json.Unmarshal(line, &env) != nil {
				os.Exit(3)
			}
			fmt.Fprintf(out, "{\"start\":%d}\n", env.I)
			out.Flush()
			res := fn(env.Job)
			b, jerr := json.Marshal(res)
			if jerr != nil {
				b = []byte(fmt.Sprintf("{\"marshal_error\":%q}", jerr.Error()))
			}
			fmt.Fprintf(out, "{\"done\":%d,\"out\":%s}\n", env.I, b)
			out.Flush()
		}
		if err != nil {
			break
		}
	}
	os.Exit(0)
}

type tailBuf struct {
	mu sync.Mutex
	b  []byte
}

func (t *tailBuf) Write(p []byte) (int, error) {
	t.mu.Lock()
	t.b = append(t.b, p...)
	if len(t.b) > 16384 {
		t.b = t.b[len(t.b)-16384:]
	}
	t.mu.Unlock()
	return len(p), nil
}
func (t *tailBuf) String() string { t.mu.Lock(); defer t.mu.Unlock(); return string(t.b) }

// RunJobs executes jobs on nproc worker processes. stall is the longest a worker may go without
// finishing a job before it is killed (a generous hang detector, e.g. 2 minutes).
func RunJobs(jobs []any, nproc int, stall time.Duration, extraArgs ...string) []JobResult {
	results := make([]JobResult, len(jobs))
	for i := range results {
		results[i].Index = i
	}
	exe, err := os.Executable()
	if err != nil {
		panic(err)
	}
	var mu sync.Mutex
	next := 0
	take := func() int {
		mu.Lock()
		defer mu.Unlock()
		if next >= len(jobs) {
			return -1
		}
		next++
		return next - 1
	}
	var wg sync.WaitGroup
	for w := 0; w < nproc; w++ {
		wg.Add(1)
		go func() {
			defer wg.Done()
			for {
				first := take()
				if first < 0 {
					return
				}
				// start a child; feed it jobs one at a time until it dies or jobs run out
				cmd := exec.Command(exe, append([]string{"--evid-worker"}, extraArgs...)...)
				stdin, _ := cmd.StdinPipe()
				stdout, _ := cmd.StdoutPipe()
				errb := &tailBuf{}
				cmd.Stderr = errb
				if os.Getenv("VERIF_WORKER_STDERR") != "" {
					cmd.Stderr = io.MultiWriter(errb, os.Stderr)
				}
				cmd.Env = os.Environ()
				if err := cmd.Start(); err != nil {
					results[first].Crashed = true
					results[first].Stderr = err.Error()
					continue
				}
				rd := bufio.NewReaderSize(stdout, 1<<20)
				cur := first
				alive := true
				for alive && cur >= 0 {
					jb, _ := json.Marshal(map[string]any{"i": cur, "job": jobs[cur]})
					if _, err := stdin.Write(append(jb, '\n')); err != nil {
						alive = false
						results[cur].Crashed = true
						break
					}
					type lineT struct {
						b   []byte
						err error
					}
					got := false
					for !got {
						ch := make(chan lineT, 1)
						go func() {
							b, err := rd.ReadBytes('\n')
							ch <- lineT{b, err}
						}()
						select {
						case l := <-ch:
							if l.err != nil && len(l.b) == 0 {
								alive = false
								results[cur].Crashed = true
								got = true
								break
							}
							var msg struct {
								Done *int            `json:"done"`
								Out  json.RawMessage `json:"out"`
							}
							if json.Unmarshal(l.b, &msg) == nil && msg.Done != nil {
								results[cur].Output = msg.Out
								got = true
							}
						case <-time.After(stall):
							cmd.Process.Kill() //nolint:errcheck
							alive = false
							results[cur].Stalled = true
							got = true
						}
					}
					if alive {
						cur = take()
					}
				}
				stdin.Close()
				if alive {
					io.Copy(io.Discard, rd) //nolint:errcheck
				}
				cmd.Wait() //nolint:errcheck
				if !alive && cur >= 0 {
					results[cur].Stderr = errb.String()
				}
			}
		}()
	}
	wg.Wait()
	return results
}
