// Package memnet is the in-memory network (engine E3) that sits behind the library's own seams
// (Server.Listen / ListenPacket, Client.DialContext / ListenPacket): stream connections with
// *net.TCPAddr addresses, datagram sockets satisfying the library's packetConn interface, deadlines
// interpreted on the virtual clock, a tap on everything written, a tamper hook, bounded receive
// buffers (back-pressure) and a registry of everything that is open.
package memnet

import (
	"context"
	"errors"
	"fmt"
	"io"
	"net"
	"os"
	"sort"
	"strconv"
	"sync"
	"sync/atomic"
	"syscall"

	"github.com/bluenviron/gortsplib/v5/pkg/zverif/vtime"
)

// Net is one isolated network.
type Net struct {
	mu        sync.Mutex
	listeners map[int]*Listener
	pconns    map[int]*PacketConn
	conns     map[*Conn]bool
	nextPort  int
	// Fault, when set, is asked before listen, listen-packet, dial, tcp-read, tcp-write and udp-write; a non-nil
	// answer is what the operation returns instead of being performed (the environment's other answer). A
	// faulted tcp-read / tcp-write resets the connection: every later operation on it fails the same way, the
	// peer reads EOF and its writes fail; the connection stays open (and listed) until its owner closes it.
	Fault func(op, tag string, local, remote net.Addr) error
	// OnAccept, when set, is called by Listener.Accept with the connection it is about to return (it may block:
	// the harness decides what happens between "accepted by the kernel" and "seen by the caller").
	OnAccept func(c net.Conn)
	// Tap, when set, sees every stream write and every datagram ("tcp"/"udp", source, destination, bytes).
	Tap func(kind string, src, dst net.Addr, data []byte)
	// DialRecvBuf, when > 0, is the receive buffer of the DIALLING side of new stream connections (the
	// accepting side keeps RecvBuf): a peer that reads slowly without being unable to send.
	DialRecvBuf int
	// AfterWrite, when set, is called (without any lock held) after a stream write has been placed in the
	// peer's receive buffer and before Write returns: a check can hold the writing goroutine there and
	// let something else happen between two consecutive writes of one goroutine.
	AfterWrite func(src, dst net.Addr, data []byte)
	// Tamper, when set, may replace a datagram or stream chunk before delivery (return nil to drop).
	Tamper func(kind string, src, dst net.Addr, data []byte) []byte
	// RecvBuf is the receive buffer of new stream connections (bytes); writes block when it is full.
	RecvBuf int
	// DialSource is the source IP of connections dialled with DialContext.
	DialSource net.IP
	opened     int64
}

// New creates a network.
func New() *Net {
	return &Net{listeners: map[int]*Listener{}, pconns: map[int]*PacketConn{}, conns: map[*Conn]bool{},
		nextPort: 40000, RecvBuf: 4 << 20, DialSource: net.IPv4(127, 0, 0, 1)}
}

func splitPort(address string) (net.IP, int, error) {
	host, ps, err := net.SplitHostPort(address)
	if err != nil {
		return nil, 0, err
	}
	p, err := strconv.Atoi(ps)
	if err != nil {
		return nil, 0, err
	}
	var ip net.IP
	if host != "" {
		ip = net.ParseIP(host)
		if ip == nil {
			if host == "localhost" {
				ip = net.IPv4(127, 0, 0, 1)
			} else {
				return nil, 0, fmt.Errorf("memnet: cannot resolve %q", host)
			}
		}
	}
	return ip, p, nil
}

func (n *Net) freePort() int {
	for {
		n.nextPort++
		if n.nextPort > 65000 {
			n.nextPort = 40000
		}
		if n.listeners[n.nextPort] == nil && n.pconns[n.nextPort] == nil {
			return n.nextPort
		}
	}
}

// Open lists what is open (for leak checks).
func (n *Net) Open() []string {
	n.mu.Lock()
	defer n.mu.Unlock()
	var out []string
	for p := range n.listeners {
		out = append(out, fmt.Sprintf("listener :%d", p))
	}
	for p, pc := range n.pconns {
		out = append(out, fmt.Sprintf("udp :%d (%s)", p, pc.tag))
	}
	for c := range n.conns {
		out = append(out, fmt.Sprintf("conn %s->%s (%s)", c.local, c.remote, c.tag))
	}
	sort.Strings(out)
	return out
}

// ---------------------------------------------------------------- errors

type timeoutError struct{}

func (timeoutError) Error() string   { return "i/o timeout" }
func (timeoutError) Timeout() bool   { return true }
func (timeoutError) Temporary() bool { return true }
func (timeoutError) Is(err error) bool {
	return err == os.ErrDeadlineExceeded
}

var errTimeout error = &net.OpError{Op: "read", Net: "mem", Err: timeoutError{}}

// ---------------------------------------------------------------- deadline helper

type deadline struct {
	mu    sync.Mutex
	t     vtime.Time
	timer *vtime.Timer
	gen   int
}

// set arms the deadline; fire is called (once) when it passes.
func (d *deadline) set(t vtime.Time, fire func()) {
	d.mu.Lock()
	defer d.mu.Unlock()
	d.gen++
	if d.timer != nil {
		d.timer.Stop()
		d.timer = nil
	}
	d.t = t
	if t.IsZero() {
		return
	}
	dur := vtime.Until(t)
	if dur <= 0 {
		go fire()
		return
	}
	d.timer = vtime.AfterFunc(dur, fire)
}

func (d *deadline) expired() bool {
	d.mu.Lock()
	defer d.mu.Unlock()
	return !d.t.IsZero() && !vtime.Now().Before(d.t)
}

// ---------------------------------------------------------------- stream connections

type pipe struct {
	mu     sync.Mutex
	cond   *sync.Cond
	buf    []byte
	cap    int
	wclose bool // writer closed: reader gets EOF after draining
	rclose bool // reader closed: writer gets an error
}

func newPipe(capacity int) *pipe {
	p := &pipe{cap: capacity}
	p.cond = sync.NewCond(&p.mu)
	return p
}

// Conn is one end of a stream connection.
type Conn struct {
	n             *Net
	local, remote *net.TCPAddr
	in, out       *pipe
	rd, wd        deadline
	closed        bool
	cmu           sync.Mutex
	tag           string
	peer          *Conn
	resetErr      atomic.Pointer[net.OpError]
	// Stall makes reads block as if the peer had sent nothing more.
}

func (c *Conn) wake() {
	c.in.mu.Lock()
	c.in.cond.Broadcast()
	c.in.mu.Unlock()
	c.out.mu.Lock()
	c.out.cond.Broadcast()
	c.out.mu.Unlock()
}

// Read implements net.Conn.
func (c *Conn) Read(b []byte) (int, error) {
	if err := c.fault("read"); err != nil {
		return 0, err
	}
	p := c.in
	p.mu.Lock()
	defer p.mu.Unlock()
	for {
		if e := c.resetErr.Load(); e != nil && !c.isClosed() {
			return 0, &net.OpError{Op: "read", Net: "mem", Err: e.Err}
		}
		if p.rclose {
			return 0, &net.OpError{Op: "read", Net: "mem", Err: net.ErrClosed}
		}
		if len(p.buf) > 0 {
			n := copy(b, p.buf)
			p.buf = p.buf[n:]
			if len(p.buf) == 0 {
				p.buf = nil
			}
			p.cond.Broadcast()
			return n, nil
		}
		if p.wclose {
			return 0, io.EOF
		}
		if c.rd.expired() {
			return 0, errTimeout
		}
		if len(b) == 0 {
			return 0, nil
		}
		p.cond.Wait()
	}
}

// Write implements net.Conn.
func (c *Conn) Write(b []byte) (int, error) {
	if c.n.Tap != nil {
		c.n.Tap("tcp", c.local, c.remote, append([]byte{}, b...))
	}
	data := b
	if c.n.Tamper != nil {
		data = c.n.Tamper("tcp", c.local, c.remote, append([]byte{}, b...))
		if data == nil {
			return len(b), nil
		}
	}
	n, err := c.write(b, data)
	if err == nil && c.n.AfterWrite != nil {
		c.n.AfterWrite(c.local, c.remote, append([]byte{}, b...))
	}
	return n, err
}

func (c *Conn) isClosed() bool {
	c.cmu.Lock()
	defer c.cmu.Unlock()
	return c.closed
}

// fault consults Net.Fault for a stream operation; an injected error resets the connection.
func (c *Conn) fault(op string) error {
	if c.isClosed() {
		return nil // the ordinary "use of closed network connection" path answers
	}
	if e := c.resetErr.Load(); e != nil {
		return &net.OpError{Op: op, Net: "mem", Err: e.Err}
	}
	h := c.n.Fault
	if h == nil {
		return nil
	}
	err := h("tcp-"+op, c.tag, c.local, c.remote)
	if err == nil {
		return nil
	}
	oe := &net.OpError{Op: op, Net: "mem", Source: c.local, Addr: c.remote, Err: err}
	c.resetErr.Store(oe)
	// both directions are dead: the peer reads EOF / fails to write, blocked operations of this side wake up
	c.in.mu.Lock()
	c.in.rclose = true
	c.in.buf = nil
	c.in.cond.Broadcast()
	c.in.mu.Unlock()
	c.out.mu.Lock()
	c.out.wclose = true
	c.out.cond.Broadcast()
	c.out.mu.Unlock()
	return oe
}

func (c *Conn) write(b, data []byte) (int, error) {
	if err := c.fault("write"); err != nil {
		return 0, err
	}
	p := c.out
	p.mu.Lock()
	defer p.mu.Unlock()
	written := 0
	for len(data) > 0 {
		if e := c.resetErr.Load(); e != nil && !c.isClosed() {
			return written, &net.OpError{Op: "write", Net: "mem", Err: e.Err}
		}
		if p.wclose {
			return written, &net.OpError{Op: "write", Net: "mem", Err: net.ErrClosed}
		}
		if p.rclose {
			return written, &net.OpError{Op: "write", Net: "mem", Err: syscall.EPIPE}
		}
		if c.wd.expired() {
			return written, &net.OpError{Op: "write", Net: "mem", Err: timeoutError{}}
		}
		room := p.cap - len(p.buf)
		if room <= 0 {
			p.cond.Wait()
			continue
		}
		k := min(room, len(data))
		p.buf = append(p.buf, data[:k]...)
		data = data[k:]
		written += k
		p.cond.Broadcast()
	}
	return len(b), nil
}

// Close implements net.Conn.
func (c *Conn) Close() error {
	c.cmu.Lock()
	if c.closed {
		c.cmu.Unlock()
		return &net.OpError{Op: "close", Net: "mem", Err: net.ErrClosed}
	}
	c.closed = true
	c.cmu.Unlock()
	c.in.mu.Lock()
	c.in.rclose = true
	c.in.buf = nil
	c.in.cond.Broadcast()
	c.in.mu.Unlock()
	c.out.mu.Lock()
	c.out.wclose = true
	c.out.cond.Broadcast()
	c.out.mu.Unlock()
	c.rd.set(vtime.Time{}, nil)
	c.wd.set(vtime.Time{}, nil)
	c.n.mu.Lock()
	delete(c.n.conns, c)
	c.n.mu.Unlock()
	return nil
}

// CloseWrite half-closes the connection.
func (c *Conn) CloseWrite() error {
	c.out.mu.Lock()
	c.out.wclose = true
	c.out.cond.Broadcast()
	c.out.mu.Unlock()
	return nil
}

// LocalAddr implements net.Conn.
func (c *Conn) LocalAddr() net.Addr { return c.local }

// RemoteAddr implements net.Conn.
func (c *Conn) RemoteAddr() net.Addr { return c.remote }

// SetDeadline implements net.Conn.
func (c *Conn) SetDeadline(t vtime.Time) error {
	c.SetReadDeadline(t)
	return c.SetWriteDeadline(t)
}

// SetReadDeadline implements net.Conn.
func (c *Conn) SetReadDeadline(t vtime.Time) error {
	c.rd.set(t, func() {
		c.in.mu.Lock()
		c.in.cond.Broadcast()
		c.in.mu.Unlock()
	})
	c.in.mu.Lock()
	c.in.cond.Broadcast()
	c.in.mu.Unlock()
	return nil
}

// SetWriteDeadline implements net.Conn.
func (c *Conn) SetWriteDeadline(t vtime.Time) error {
	c.wd.set(t, func() {
		c.out.mu.Lock()
		c.out.cond.Broadcast()
		c.out.mu.Unlock()
	})
	return nil
}

// Buffered returns the number of bytes waiting to be read by this end.
func (c *Conn) Buffered() int {
	c.in.mu.Lock()
	defer c.in.mu.Unlock()
	return len(c.in.buf)
}

// Listener is a stream listener.
type Listener struct {
	n      *Net
	addr   *net.TCPAddr
	mu     sync.Mutex
	cond   *sync.Cond
	queue  []*Conn
	closed bool
}

// Listen has the signature of Server.Listen.
func (n *Net) Listen(network, address string) (net.Listener, error) {
	ip, port, err := splitPort(address)
	if err != nil {
		return nil, err
	}
	if h := n.Fault; h != nil {
		if err := h("listen", network, &net.TCPAddr{IP: ip, Port: port}, nil); err != nil {
			return nil, &net.OpError{Op: "listen", Net: "tcp", Err: err}
		}
	}
	n.mu.Lock()
	defer n.mu.Unlock()
	if port == 0 {
		port = n.freePort()
	}
	if n.listeners[port] != nil {
		return nil, &net.OpError{Op: "listen", Net: "tcp", Err: syscall.EADDRINUSE}
	}
	if ip == nil {
		ip = net.IPv4zero
	}
	l := &Listener{n: n, addr: &net.TCPAddr{IP: ip, Port: port}}
	l.cond = sync.NewCond(&l.mu)
	n.listeners[port] = l
	return l, nil
}

// Accept implements net.Listener.
func (l *Listener) Accept() (net.Conn, error) {
	l.mu.Lock()
	defer l.mu.Unlock()
	for {
		if l.closed {
			return nil, &net.OpError{Op: "accept", Net: "tcp", Err: net.ErrClosed}
		}
		if len(l.queue) > 0 {
			c := l.queue[0]
			l.queue = l.queue[1:]
			if h := l.n.OnAccept; h != nil {
				// the connection has left the backlog and has not reached the caller yet
				l.mu.Unlock()
				h(c)
				l.mu.Lock()
			}
			return c, nil
		}
		l.cond.Wait()
	}
}

// Close implements net.Listener.
func (l *Listener) Close() error {
	l.mu.Lock()
	if l.closed {
		l.mu.Unlock()
		return &net.OpError{Op: "close", Net: "tcp", Err: net.ErrClosed}
	}
	l.closed = true
	q := l.queue
	l.queue = nil
	l.cond.Broadcast()
	l.mu.Unlock()
	for _, c := range q {
		c.Close()
	}
	l.n.mu.Lock()
	delete(l.n.listeners, l.addr.Port)
	l.n.mu.Unlock()
	return nil
}

// Addr implements net.Listener.
func (l *Listener) Addr() net.Addr { return l.addr }

// DialContext has the signature of Client.DialContext.
func (n *Net) DialContext(ctx context.Context, network, address string) (net.Conn, error) {
	return n.DialFrom(nil, address, "client")
}

// DialFrom connects to address from the given source address (nil: DialSource and a fresh port).
func (n *Net) DialFrom(src *net.TCPAddr, address, tag string) (*Conn, error) {
	ip, port, err := splitPort(address)
	if err != nil {
		return nil, err
	}
	if h := n.Fault; h != nil {
		if err := h("dial", tag, src, &net.TCPAddr{IP: ip, Port: port}); err != nil {
			return nil, &net.OpError{Op: "dial", Net: "tcp", Err: err}
		}
	}
	n.mu.Lock()
	l := n.listeners[port]
	if src == nil {
		src = &net.TCPAddr{IP: n.DialSource, Port: n.freePort()}
	}
	n.mu.Unlock()
	if l == nil {
		return nil, &net.OpError{Op: "dial", Net: "tcp", Err: syscall.ECONNREFUSED}
	}
	if ip == nil || ip.IsUnspecified() {
		ip = net.IPv4(127, 0, 0, 1)
	}
	dst := &net.TCPAddr{IP: ip, Port: port}
	a2b := newPipe(n.RecvBuf)
	b2a := newPipe(n.RecvBuf)
	if n.DialRecvBuf > 0 {
		b2a = newPipe(n.DialRecvBuf)
	}
	ca := &Conn{n: n, local: src, remote: dst, in: b2a, out: a2b, tag: tag}
	cb := &Conn{n: n, local: dst, remote: src, in: a2b, out: b2a, tag: "accepted"}
	ca.peer, cb.peer = cb, ca
	// registered BEFORE the connection becomes visible to the listener: a Listener.Close that runs right
	// after the enqueue closes cb, and that must find it in the registry (it used to be registered
	// afterwards - a closed connection then stayed listed as open; found by C13 under load)
	n.mu.Lock()
	n.conns[ca] = true
	n.conns[cb] = true
	n.opened += 2
	n.mu.Unlock()
	l.mu.Lock()
	if l.closed {
		l.mu.Unlock()
		n.mu.Lock()
		delete(n.conns, ca)
		delete(n.conns, cb)
		n.opened -= 2
		n.mu.Unlock()
		return nil, &net.OpError{Op: "dial", Net: "tcp", Err: syscall.ECONNREFUSED}
	}
	l.queue = append(l.queue, cb)
	l.cond.Broadcast()
	l.mu.Unlock()
	return ca, nil
}

// ---------------------------------------------------------------- datagram sockets

type datagram struct {
	from *net.UDPAddr
	data []byte
}

// PacketConn is a datagram socket.
type PacketConn struct {
	n      *Net
	addr   *net.UDPAddr
	mu     sync.Mutex
	cond   *sync.Cond
	queue  []datagram
	closed bool
	rd     deadline
	tag    string
}

// ListenPacket has the signature of Server.ListenPacket / Client.ListenPacket.
func (n *Net) ListenPacket(network, address string) (net.PacketConn, error) {
	ip, port, err := splitPort(address)
	if err != nil {
		return nil, err
	}
	if h := n.Fault; h != nil {
		if err := h("listen-packet", network, &net.UDPAddr{IP: ip, Port: port}, nil); err != nil {
			return nil, &net.OpError{Op: "listen", Net: "udp", Err: err}
		}
	}
	n.mu.Lock()
	defer n.mu.Unlock()
	if port == 0 {
		port = n.freePort()
	}
	if n.pconns[port] != nil {
		return nil, &net.OpError{Op: "listen", Net: "udp", Err: syscall.EADDRINUSE}
	}
	if ip == nil {
		ip = net.IPv4zero
	}
	pc := &PacketConn{n: n, addr: &net.UDPAddr{IP: ip, Port: port}, tag: network}
	pc.cond = sync.NewCond(&pc.mu)
	n.pconns[port] = pc
	n.opened++
	return pc, nil
}

// ReadFrom implements net.PacketConn.
func (pc *PacketConn) ReadFrom(b []byte) (int, net.Addr, error) {
	pc.mu.Lock()
	defer pc.mu.Unlock()
	for {
		if pc.closed {
			return 0, nil, &net.OpError{Op: "read", Net: "udp", Err: net.ErrClosed}
		}
		if len(pc.queue) > 0 {
			d := pc.queue[0]
			pc.queue = pc.queue[1:]
			n := copy(b, d.data)
			return n, d.from, nil
		}
		if pc.rd.expired() {
			return 0, nil, errTimeout
		}
		pc.cond.Wait()
	}
}

func (n *Net) deliver(from *net.UDPAddr, to *net.UDPAddr, data []byte) {
	if n.Tap != nil {
		n.Tap("udp", from, to, append([]byte{}, data...))
	}
	if n.Tamper != nil {
		data = n.Tamper("udp", from, to, append([]byte{}, data...))
		if data == nil {
			return
		}
	}
	n.mu.Lock()
	dst := n.pconns[to.Port]
	n.mu.Unlock()
	if dst == nil {
		return // nobody listens: the datagram is lost, as on a real network
	}
	dst.mu.Lock()
	if !dst.closed && len(dst.queue) < 4096 {
		dst.queue = append(dst.queue, datagram{from: from, data: append([]byte{}, data...)})
		dst.cond.Broadcast()
	}
	dst.mu.Unlock()
}

// WriteTo implements net.PacketConn.
func (pc *PacketConn) WriteTo(b []byte, addr net.Addr) (int, error) {
	pc.mu.Lock()
	closed := pc.closed
	pc.mu.Unlock()
	if closed {
		return 0, &net.OpError{Op: "write", Net: "udp", Err: net.ErrClosed}
	}
	to, ok := addr.(*net.UDPAddr)
	if !ok {
		return 0, errors.New("memnet: WriteTo needs *net.UDPAddr")
	}
	if to.Port <= 0 || to.Port > 65535 {
		// what the kernel answers (sendto: EINVAL) for a destination port that does not exist
		return 0, &net.OpError{Op: "write", Net: "udp", Source: pc.addr, Addr: to, Err: os.NewSyscallError("sendto", syscall.EINVAL)}
	}
	if h := pc.n.Fault; h != nil {
		if err := h("udp-write", pc.tag, pc.addr, to); err != nil {
			return 0, &net.OpError{Op: "write", Net: "udp", Source: pc.addr, Addr: to, Err: os.NewSyscallError("sendto", err)}
		}
	}
	from := &net.UDPAddr{IP: pc.addr.IP, Port: pc.addr.Port}
	if from.IP == nil || from.IP.IsUnspecified() {
		from.IP = net.IPv4(127, 0, 0, 1)
	}
	pc.n.deliver(from, to, b)
	return len(b), nil
}

// Inject delivers a datagram with an arbitrary source address.
func (n *Net) Inject(from *net.UDPAddr, toPort int, data []byte) {
	n.deliver(from, &net.UDPAddr{IP: net.IPv4(127, 0, 0, 1), Port: toPort}, data)
}

// Close implements net.PacketConn.
func (pc *PacketConn) Close() error {
	pc.mu.Lock()
	if pc.closed {
		pc.mu.Unlock()
		return &net.OpError{Op: "close", Net: "udp", Err: net.ErrClosed}
	}
	pc.closed = true
	pc.cond.Broadcast()
	pc.mu.Unlock()
	pc.rd.set(vtime.Time{}, nil)
	pc.n.mu.Lock()
	delete(pc.n.pconns, pc.addr.Port)
	pc.n.mu.Unlock()
	return nil
}

// LocalAddr implements net.PacketConn.
func (pc *PacketConn) LocalAddr() net.Addr { return pc.addr }

// SetDeadline implements net.PacketConn.
func (pc *PacketConn) SetDeadline(t vtime.Time) error { return pc.SetReadDeadline(t) }

// SetReadDeadline implements net.PacketConn.
func (pc *PacketConn) SetReadDeadline(t vtime.Time) error {
	pc.rd.set(t, func() {
		pc.mu.Lock()
		pc.cond.Broadcast()
		pc.mu.Unlock()
	})
	pc.mu.Lock()
	pc.cond.Broadcast()
	pc.mu.Unlock()
	return nil
}

// SetWriteDeadline implements net.PacketConn.
func (pc *PacketConn) SetWriteDeadline(t vtime.Time) error { return nil }

// SyscallConn is part of the library's packetConn interface; there is no file descriptor here.
func (pc *PacketConn) SyscallConn() (syscall.RawConn, error) {
	return nil, errors.New("memnet: no file descriptor")
}

// SetReadBuffer is part of the library's packetConn interface.
func (pc *PacketConn) SetReadBuffer(int) error { return nil }
