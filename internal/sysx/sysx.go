// Package sysx is the shared harness library for whole-system checks: a real gortsplib Server and/or
// Client on the in-memory network (memnet) under virtual time (vtime), a recording server handler whose
// set of implemented callbacks is configurable, a raw RTSP peer that can say anything, and leak probes.
//
// Conventions: wall-clock time is used only as a hang detector (HangLimit, generous); every wait is
// for an observable event. Virtual time moves only through Env.Advance.
package sysx

import (
	"bufio"
	"bytes"
	"errors"
	"fmt"
	"io"
	"net"
	"runtime"
	"sort"
	"strings"
	"sync"
	"time"

	"github.com/pion/rtcp"
	"github.com/pion/rtp"

	"github.com/bluenviron/gortsplib/v5"
	"github.com/bluenviron/gortsplib/v5/pkg/base"
	"github.com/bluenviron/gortsplib/v5/pkg/conn"
	"github.com/bluenviron/gortsplib/v5/pkg/description"
	"github.com/bluenviron/gortsplib/v5/pkg/format"
	"github.com/bluenviron/gortsplib/v5/pkg/zverif/vtime"

	"verif/internal/memnet"
)

// HangLimit is the wall-clock hang detector (never a timing oracle).
var HangLimit = 10 * time.Second

// ErrHang is returned when an expected event did not happen within HangLimit.
var ErrHang = errors.New("sysx: hang detector expired")

// Env is one isolated world: network + virtual clock + event log.
type Env struct {
	Net   *memnet.Net
	Start time.Time
	Log   *Log
}

// NewEnv installs a fresh virtual clock and network.
func NewEnv() *Env {
	start := time.Date(2024, 1, 1, 0, 0, 0, 0, time.UTC)
	vtime.Install(start, 0)
	return &Env{Net: memnet.New(), Start: start, Log: &Log{}}
}

// Advance moves virtual time forward by d as a discrete-event simulation: the clock jumps from one
// pending timer to the next, and after every instant at which timers fired (and once before moving at
// all) it waits until no goroutine that executes library code is runnable (Settle). Library code
// therefore never observes time moving while it is in the middle of reacting to something, however
// loaded the machine is.
func (e *Env) Advance(d time.Duration) {
	Settle()
	for d > 0 {
		moved, fired := vtime.AdvanceNext(d)
		d -= moved
		if fired {
			Settle()
		} else if moved == 0 {
			break
		}
	}
}

// SettleDebug keeps the goroutine dump on which the last Settle decided "quiescent".
var SettleDebug bool

// LastSettleDump is that dump.
var LastSettleDump string

var busyStates = []string{"running", "runnable", "syscall", "preempted", "GC assist", "copystack"}

// Settle waits until every goroutine whose stack contains library frames is blocked (channel, select,
// condition variable, mutex ...), i.e. until the library has finished reacting to whatever happened.
// memnet blocks on sync.Cond, never on the OS, so "blocked" is a state the runtime reports.
func Settle() bool {
	deadline := time.Now().Add(HangLimit)
	buf := make([]byte, 1<<18)
	for round := 0; ; round++ {
		n := runtime.Stack(buf, true)
		for n == len(buf) {
			buf = make([]byte, 2*len(buf))
			n = runtime.Stack(buf, true)
		}
		busy := false
		for _, g := range bytes.Split(buf[:n], []byte("\n\n")) {
			if bytes.Contains(g, []byte("stack unavailable")) {
				// a goroutine running on another thread has no printable stack: it may be library code
				busy = true
				break
			}
			if bytes.Contains(g, []byte("verif/internal/sysx.Settle")) {
				continue // the caller itself
			}
			nl := bytes.IndexByte(g, '\n')
			if nl < 0 {
				continue
			}
			head := g[:nl]
			lb, rb := bytes.IndexByte(head, '['), bytes.IndexByte(head, ']')
			if lb < 0 || rb < lb {
				continue
			}
			state := string(head[lb+1 : rb])
			// ANY goroutine that is running or about to run counts, not only those with library frames: a
			// harness goroutine that was just started to call into the library (its stack shows no library
			// frame yet), a timer callback of the virtual clock or a deadline helper of the network is about
			// to wake library goroutines. (Ignoring them let the virtual clock creep forward by a second now
			// and then while a call was only about to begin - enough, once in a thousand runs, to expire a
			// 5 s read deadline.)
			for _, b := range busyStates {
				if strings.HasPrefix(state, b) {
					busy = true
				}
			}
			if busy {
				break
			}
			if !bytes.Contains(g, []byte("github.com/bluenviron/gortsplib/v5")) {
				continue
			}
			// waiting for a mutex is not quiescence: the goroutine is in the middle of something and
			// continues as soon as the (briefly held) lock is released
			if (strings.HasPrefix(state, "semacquire") || strings.HasPrefix(state, "sync.Mutex") || strings.HasPrefix(state, "sync.RWMutex")) &&
				!bytes.Contains(g, []byte("WaitGroup).Wait")) {
				busy = true
			}
			if busy {
				break
			}
		}
		if !busy {
			if SettleDebug {
				LastSettleDump = string(buf[:n])
			}
			return true
		}
		if time.Now().After(deadline) {
			return false
		}
		if round < 20 {
			runtime.Gosched()
		} else {
			time.Sleep(100 * time.Microsecond)
		}
	}
}

// WaitFor polls cond until it holds or the hang detector expires.
func WaitFor(cond func() bool) bool {
	deadline := time.Now().Add(HangLimit)
	for i := 0; ; i++ {
		if cond() {
			return true
		}
		if time.Now().After(deadline) {
			return false
		}
		if i < 50 {
			runtime.Gosched()
			time.Sleep(50 * time.Microsecond)
		} else {
			time.Sleep(time.Millisecond)
		}
	}
}

// ---------------------------------------------------------------- event log

// Event is one recorded callback or harness action.
type Event struct {
	N       int
	Kind    string // conn-open conn-close session-open session-close request response describe announce setup play record pause getparam setparam rtp rtcp ...
	Conn    *gortsplib.ServerConn
	Session *gortsplib.ServerSession
	Info    string
	Err     error
	State   gortsplib.ServerSessionState
	Path    string
	Query   string
}

// Log is a totally ordered, thread-safe event list.
type Log struct {
	mu sync.Mutex
	ev []Event
}

// Add appends an event.
func (l *Log) Add(e Event) {
	l.mu.Lock()
	e.N = len(l.ev)
	l.ev = append(l.ev, e)
	l.mu.Unlock()
}

// Snapshot returns a copy.
func (l *Log) Snapshot() []Event {
	l.mu.Lock()
	defer l.mu.Unlock()
	return append([]Event{}, l.ev...)
}

// Count counts events of a kind.
func (l *Log) Count(kind string) int {
	n := 0
	for _, e := range l.Snapshot() {
		if e.Kind == kind {
			n++
		}
	}
	return n
}

// ---------------------------------------------------------------- server handler

// Core records connection/session lifecycle and request/response callbacks.
type Core struct {
	L *Log
}

func (h *Core) OnConnOpen(ctx *gortsplib.ServerHandlerOnConnOpenCtx) {
	h.L.Add(Event{Kind: "conn-open", Conn: ctx.Conn})
}
func (h *Core) OnConnClose(ctx *gortsplib.ServerHandlerOnConnCloseCtx) {
	h.L.Add(Event{Kind: "conn-close", Conn: ctx.Conn, Err: ctx.Error})
}
func (h *Core) OnSessionOpen(ctx *gortsplib.ServerHandlerOnSessionOpenCtx) {
	h.L.Add(Event{Kind: "session-open", Session: ctx.Session, Conn: ctx.Conn})
}
func (h *Core) OnSessionClose(ctx *gortsplib.ServerHandlerOnSessionCloseCtx) {
	h.L.Add(Event{Kind: "session-close", Session: ctx.Session, Err: ctx.Error})
}
func (h *Core) OnRequest(sc *gortsplib.ServerConn, req *base.Request) {
	h.L.Add(Event{Kind: "request", Conn: sc, Info: string(req.Method)})
}
func (h *Core) OnResponse(sc *gortsplib.ServerConn, res *base.Response) {
	e := Event{Kind: "response", Conn: sc, Info: fmt.Sprint(int(res.StatusCode)), State: -1}
	if ss := sc.Session(); ss != nil {
		e.Session = ss
		e.State = ss.State()
	}
	h.L.Add(e)
}
func (h *Core) OnPacketsLost(ctx *gortsplib.ServerHandlerOnPacketsLostCtx) {
	h.L.Add(Event{Kind: "packets-lost", Session: ctx.Session, Info: fmt.Sprint(ctx.Lost)})
}
func (h *Core) OnDecodeError(ctx *gortsplib.ServerHandlerOnDecodeErrorCtx) {
	h.L.Add(Event{Kind: "decode-error", Session: ctx.Session, Err: ctx.Error})
}
func (h *Core) OnStreamWriteError(ctx *gortsplib.ServerHandlerOnStreamWriteErrorCtx) {
	h.L.Add(Event{Kind: "stream-write-error", Session: ctx.Session, Err: ctx.Error})
}

// App is the application behind the handler: one published stream per path and the policy hooks.
type App struct {
	L      *Log
	Server *gortsplib.Server
	mu     sync.Mutex
	// Stream served for DESCRIBE/SETUP(play); nil => 404.
	Stream *gortsplib.ServerStream
	// Published holds the stream created from an ANNOUNCE+RECORD session (publisher -> readers relay).
	Published *gortsplib.ServerStream
	Publisher *gortsplib.ServerSession
	// Relay: when true, a RECORD session's packets are forwarded to Published.
	Relay bool
	// Hook lets a check override any response: return non-nil to use it.
	Hook func(kind string, path, query string) *base.Response
	// OnRTP is called for packets received from recording sessions.
	OnRTP func(ss *gortsplib.ServerSession, m *description.Media, f format.Format, p *rtp.Packet)
	// OnRTCP likewise.
	OnRTCP func(ss *gortsplib.ServerSession, m *description.Media, p rtcp.Packet)
}

func (a *App) respond(kind, path, query string) *base.Response {
	if a.Hook != nil {
		if r := a.Hook(kind, path, query); r != nil {
			return r
		}
	}
	return &base.Response{StatusCode: base.StatusOK}
}

func (a *App) stream() *gortsplib.ServerStream {
	a.mu.Lock()
	defer a.mu.Unlock()
	if a.Published != nil {
		return a.Published
	}
	return a.Stream
}

// Describe part.
type Describe struct{ A *App }

func (h *Describe) OnDescribe(ctx *gortsplib.ServerHandlerOnDescribeCtx) (*base.Response, *gortsplib.ServerStream, error) {
	h.A.L.Add(Event{Kind: "describe", Conn: ctx.Conn, Path: ctx.Path, Query: ctx.Query})
	st := h.A.stream()
	if st == nil {
		return &base.Response{StatusCode: base.StatusNotFound}, nil, nil
	}
	r := h.A.respond("describe", ctx.Path, ctx.Query)
	if r.StatusCode != base.StatusOK {
		return r, nil, nil
	}
	return r, st, nil
}

// SetupPlay part.
type SetupPlay struct{ A *App }

func (h *SetupPlay) OnSetup(ctx *gortsplib.ServerHandlerOnSetupCtx) (*base.Response, *gortsplib.ServerStream, error) {
	h.A.L.Add(Event{Kind: "setup", Conn: ctx.Conn, Session: ctx.Session, Path: ctx.Path, Query: ctx.Query, State: ctx.Session.State()})
	r := h.A.respond("setup", ctx.Path, ctx.Query)
	if r.StatusCode != base.StatusOK {
		return r, nil, nil
	}
	if ctx.Session.State() == gortsplib.ServerSessionStatePreRecord {
		return r, nil, nil
	}
	st := h.A.stream()
	if st == nil {
		return &base.Response{StatusCode: base.StatusNotFound}, nil, nil
	}
	return r, st, nil
}
func (h *SetupPlay) OnPlay(ctx *gortsplib.ServerHandlerOnPlayCtx) (*base.Response, error) {
	h.A.L.Add(Event{Kind: "play", Conn: ctx.Conn, Session: ctx.Session, Path: ctx.Path, Query: ctx.Query, State: ctx.Session.State()})
	return h.A.respond("play", ctx.Path, ctx.Query), nil
}

// AnnounceRecord part.
type AnnounceRecord struct{ A *App }

func (h *AnnounceRecord) OnAnnounce(ctx *gortsplib.ServerHandlerOnAnnounceCtx) (*base.Response, error) {
	h.A.L.Add(Event{Kind: "announce", Conn: ctx.Conn, Session: ctx.Session, Path: ctx.Path, Query: ctx.Query, State: ctx.Session.State()})
	r := h.A.respond("announce", ctx.Path, ctx.Query)
	if r.StatusCode == base.StatusOK && h.A.Relay {
		st := &gortsplib.ServerStream{Server: h.A.Server, Desc: ctx.Description}
		if err := st.Initialize(); err != nil {
			return &base.Response{StatusCode: base.StatusInternalServerError}, nil
		}
		h.A.mu.Lock()
		h.A.Published = st
		h.A.Publisher = ctx.Session
		h.A.mu.Unlock()
	}
	return r, nil
}
func (h *AnnounceRecord) OnRecord(ctx *gortsplib.ServerHandlerOnRecordCtx) (*base.Response, error) {
	h.A.L.Add(Event{Kind: "record", Conn: ctx.Conn, Session: ctx.Session, Path: ctx.Path, Query: ctx.Query, State: ctx.Session.State()})
	r := h.A.respond("record", ctx.Path, ctx.Query)
	if r.StatusCode == base.StatusOK {
		ss := ctx.Session
		ss.OnPacketRTPAny(func(m *description.Media, f format.Format, p *rtp.Packet) {
			if h.A.OnRTP != nil {
				h.A.OnRTP(ss, m, f, p)
			}
			h.A.mu.Lock()
			st := h.A.Published
			h.A.mu.Unlock()
			if h.A.Relay && st != nil {
				st.WritePacketRTP(m, p) //nolint:errcheck
			}
		})
		ss.OnPacketRTCPAny(func(m *description.Media, p rtcp.Packet) {
			if h.A.OnRTCP != nil {
				h.A.OnRTCP(ss, m, p)
			}
		})
	}
	return r, nil
}

// Pause part.
type Pause struct{ A *App }

func (h *Pause) OnPause(ctx *gortsplib.ServerHandlerOnPauseCtx) (*base.Response, error) {
	h.A.L.Add(Event{Kind: "pause", Conn: ctx.Conn, Session: ctx.Session, Path: ctx.Path, Query: ctx.Query, State: ctx.Session.State()})
	return h.A.respond("pause", ctx.Path, ctx.Query), nil
}

// Params part.
type Params struct{ A *App }

func (h *Params) OnGetParameter(ctx *gortsplib.ServerHandlerOnGetParameterCtx) (*base.Response, error) {
	h.A.L.Add(Event{Kind: "getparam", Conn: ctx.Conn, Session: ctx.Session, Path: ctx.Path, Query: ctx.Query})
	return h.A.respond("getparam", ctx.Path, ctx.Query), nil
}
func (h *Params) OnSetParameter(ctx *gortsplib.ServerHandlerOnSetParameterCtx) (*base.Response, error) {
	h.A.L.Add(Event{Kind: "setparam", Conn: ctx.Conn, Session: ctx.Session, Path: ctx.Path, Query: ctx.Query})
	return h.A.respond("setparam", ctx.Path, ctx.Query), nil
}

// Handler subsets (a Go type either has a method or not, so each subset is a type).
type (
	// HandlerAll implements every callback.
	HandlerAll struct {
		*Core
		*Describe
		*SetupPlay
		*AnnounceRecord
		*Pause
		*Params
	}
	// HandlerNoRecord lacks OnAnnounce/OnRecord.
	HandlerNoRecord struct {
		*Core
		*Describe
		*SetupPlay
		*Pause
		*Params
	}
	// HandlerNoPause lacks OnPause.
	HandlerNoPause struct {
		*Core
		*Describe
		*SetupPlay
		*AnnounceRecord
		*Params
	}
	// HandlerDescribeOnly implements only OnDescribe (+ lifecycle).
	HandlerDescribeOnly struct {
		*Core
		*Describe
	}
)

// NewHandler builds the handler for a subset name: all, norecord, nopause, describeonly.
func NewHandler(subset string, a *App) any {
	c := &Core{L: a.L}
	d := &Describe{a}
	sp := &SetupPlay{a}
	ar := &AnnounceRecord{a}
	p := &Pause{a}
	pa := &Params{a}
	switch subset {
	case "all":
		return &HandlerAll{c, d, sp, ar, p, pa}
	case "norecord":
		return &HandlerNoRecord{c, d, sp, p, pa}
	case "nopause":
		return &HandlerNoPause{c, d, sp, ar, pa}
	case "describeonly":
		return &HandlerDescribeOnly{c, d}
	}
	panic("unknown handler subset " + subset)
}

// ServerOpts configures StartServer.
type ServerOpts struct {
	Handlers string // all, norecord, nopause, describeonly
	UDP      bool
	Desc     *description.Session // stream to serve (nil: default one H264 media)
	NoStream bool                 // do not create the served stream
	Tweak    func(s *gortsplib.Server)
}

// DefaultDesc returns a description with n medias (H264 video, then Opus audio, then G711).
func DefaultDesc(n int) *description.Session {
	d := &description.Session{}
	for i := 0; i < n; i++ {
		switch i % 3 {
		case 0:
			d.Medias = append(d.Medias, &description.Media{Type: description.MediaTypeVideo, Formats: []format.Format{&format.H264{PayloadTyp: 96, PacketizationMode: 1}}})
		case 1:
			d.Medias = append(d.Medias, &description.Media{Type: description.MediaTypeAudio, Formats: []format.Format{&format.Opus{PayloadTyp: 97, ChannelCount: 2}}})
		case 2:
			d.Medias = append(d.Medias, &description.Media{Type: description.MediaTypeAudio, Formats: []format.Format{&format.G711{PayloadTyp: 0, MULaw: true, SampleRate: 8000, ChannelCount: 1}}})
		}
	}
	return d
}

// StartServer starts a real Server on the environment's network (RTSP 127.0.0.1:8554, UDP 8000/8001).
func (e *Env) StartServer(o ServerOpts) (*gortsplib.Server, *App, error) {
	app := &App{L: e.Log}
	if o.Handlers == "" {
		o.Handlers = "all"
	}
	s := &gortsplib.Server{
		Handler:      NewHandler(o.Handlers, app),
		RTSPAddress:  "127.0.0.1:8554",
		Listen:       e.Net.Listen,
		ListenPacket: e.Net.ListenPacket,
	}
	if o.UDP {
		s.UDPRTPAddress = "127.0.0.1:8000"
		s.UDPRTCPAddress = "127.0.0.1:8001"
	}
	if o.Tweak != nil {
		o.Tweak(s)
	}
	app.Server = s
	if err := s.Start(); err != nil {
		return nil, nil, err
	}
	if !o.NoStream {
		d := o.Desc
		if d == nil {
			d = DefaultDesc(1)
		}
		st := &gortsplib.ServerStream{Server: s, Desc: d}
		if err := st.Initialize(); err != nil {
			s.Close()
			return nil, nil, err
		}
		app.Stream = st
	}
	return s, app, nil
}

// NewClient returns a library client wired to the environment's network.
func (e *Env) NewClient(tweak func(c *gortsplib.Client)) *gortsplib.Client {
	c := &gortsplib.Client{Scheme: "rtsp", Host: "127.0.0.1:8554", DialContext: e.Net.DialContext, ListenPacket: e.Net.ListenPacket}
	if tweak != nil {
		tweak(c)
	}
	return c
}

// ---------------------------------------------------------------- raw RTSP peer

// Peer is a raw control connection that can send anything.
type Peer struct {
	C    *memnet.Conn
	rc   *conn.Conn
	br   *bufio.Reader
	CSeq int
	// Frames collects interleaved frames read while waiting for responses.
	Frames []*base.InterleavedFrame
}

// Dial opens a raw control connection from the given source (nil: default).
func (e *Env) Dial(src *net.TCPAddr) (*Peer, error) {
	c, err := e.Net.DialFrom(src, "127.0.0.1:8554", "peer")
	if err != nil {
		return nil, err
	}
	br := bufio.NewReader(c)
	return &Peer{C: c, br: br, rc: conn.NewConn(br, c)}, nil
}

// Close closes the connection.
func (p *Peer) Close() { p.C.Close() }

// SendRaw writes bytes.
func (p *Peer) SendRaw(b []byte) error {
	_, err := p.C.Write(b)
	return err
}

// Send writes a request, adding CSeq when absent.
func (p *Peer) Send(req *base.Request) error {
	if req.Header == nil {
		req.Header = base.Header{}
	}
	if _, ok := req.Header["CSeq"]; !ok {
		p.CSeq++
		req.Header["CSeq"] = base.HeaderValue{fmt.Sprint(p.CSeq)}
	}
	return p.rc.WriteRequest(req)
}

// ReadResponse reads until a response arrives (frames are collected), the connection ends (io.EOF or
// another error) or the hang detector expires (ErrHang).
func (p *Peer) ReadResponse() (*base.Response, error) {
	type result struct {
		res *base.Response
		err error
	}
	ch := make(chan result, 1)
	go func() {
		for {
			what, err := p.rc.Read()
			if err != nil {
				ch <- result{nil, err}
				return
			}
			switch w := what.(type) {
			case *base.Response:
				ch <- result{w, nil}
				return
			case *base.InterleavedFrame:
				p.Frames = append(p.Frames, &base.InterleavedFrame{Channel: w.Channel, Payload: append([]byte{}, w.Payload...)})
			case *base.Request:
				// server-to-client requests are not expected; ignore
			}
		}
	}()
	select {
	case r := <-ch:
		return r.res, r.err
	case <-time.After(HangLimit):
		p.C.Close()
		return nil, ErrHang
	}
}

// ReadAny reads the next element (response, request or interleaved frame) from the connection.
func (p *Peer) ReadAny() (any, error) { return p.rc.Read() }

// Do sends a request and reads the response.
func (p *Peer) Do(req *base.Request) (*base.Response, error) {
	if err := p.Send(req); err != nil {
		return nil, err
	}
	return p.ReadResponse()
}

// Alive reports whether the server still serves this connection: it sends OPTIONS and gets a response
// (true) or the end of the stream (false). Deterministic because the server reads one request at a time
// and closes the connection right after a response that was produced together with an error.
func (p *Peer) Alive() (bool, error) {
	u, _ := base.ParseURL("rtsp://127.0.0.1:8554/")
	res, err := p.Do(&base.Request{Method: base.Options, URL: u})
	if err == nil && res != nil {
		return true, nil
	}
	if errors.Is(err, ErrHang) {
		return false, err
	}
	return false, nil
}

// MustURL parses a URL or panics.
func MustURL(s string) *base.URL {
	u, err := base.ParseURL(s)
	if err != nil {
		panic(err)
	}
	return u
}

// ---------------------------------------------------------------- leak probes

// LibGoroutines returns the sorted list of goroutines that are executing library code (frames of
// github.com/bluenviron/gortsplib), one line per goroutine: its top library frame.
func LibGoroutines() []string {
	buf := make([]byte, 1<<20)
	for {
		n := runtime.Stack(buf, true)
		if n < len(buf) {
			buf = buf[:n]
			break
		}
		buf = make([]byte, 2*len(buf))
	}
	var out []string
	for _, g := range bytes.Split(buf, []byte("\n\n")) {
		lines := strings.Split(string(g), "\n")
		for _, l := range lines[1:] {
			if strings.HasPrefix(l, "github.com/bluenviron/gortsplib/v5") && !strings.Contains(l, "/zverif/") {
				f := l
				if i := strings.Index(f, "("); i > 0 {
					f = f[:i]
				}
				out = append(out, strings.TrimPrefix(f, "github.com/bluenviron/gortsplib/v5"))
				break
			}
		}
	}
	sort.Strings(out)
	return out
}

// WaitNoLibGoroutines waits until no goroutine runs library code (except the allowed prefixes).
func WaitNoLibGoroutines(allowed ...string) []string {
	var left []string
	WaitFor(func() bool {
		left = left[:0]
		for _, g := range LibGoroutines() {
			ok := false
			for _, a := range allowed {
				if strings.Contains(g, a) {
					ok = true
				}
			}
			if !ok {
				left = append(left, g)
			}
		}
		return len(left) == 0
	})
	return left
}

// DrainEOF reads the connection until EOF/error, reporting whether the end came before the hang limit.
func (p *Peer) DrainEOF() bool {
	done := make(chan struct{})
	go func() {
		io.Copy(io.Discard, p.br) //nolint:errcheck
		close(done)
	}()
	select {
	case <-done:
		return true
	case <-time.After(HangLimit):
		return false
	}
}
