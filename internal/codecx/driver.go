package codecx

import (
	"fmt"
	"sync"

	"verif/internal/evid"
)

// Sweep enumerates the whole C03/C06 case space on every codec and evaluates oracle which ("C03" or "C06").
func Sweep(run *evid.Run, which string) {
	if run.Replay != "" {
		var cs Case
		if err := evid.LoadReplay(run.Replay, &cs); err != nil {
			run.Fatal("replay: %v", err)
		}
		cc := ByName(cs.Codec)
		if len(cc) != 1 {
			run.Fatal("replay: unknown codec %q", cs.Codec)
		}
		rt, lim, _ := RunCase(cc[0], cs)
		f := rt
		if which == "C06" {
			f = lim
		}
		run.Eval(1)
		if f != nil {
			fmt.Println("replay reproduces:", f.Sig, f.Msg)
			run.Violation(f.Sig, map[string]any{"case": cs, "msg": f.Msg})
		} else {
			fmt.Println("replay: no violation")
		}
		run.Finish()
	}
	codecs := All()
	limits := map[string]any{}
	var mu sync.Mutex
	perCodec := map[string]int64{}
	for _, c := range codecs {
		s, l := c.Limits(run.Thorough())
		limits[c.Name] = map[string]any{"small_exhaustive": []int{s[0], s[len(s)-1]}, "large_thresholds": l}
		// stream cases in batches to 16 workers
		ch := make(chan []Case, 64)
		var total int64
		go func() {
			batch := make([]Case, 0, 512)
			Enumerate(c, run.Thorough(), func(cs Case) {
				batch = append(batch, cs)
				total++
				if len(batch) == cap(batch) {
					ch <- batch
					batch = make([]Case, 0, 512)
				}
			})
			ch <- batch
			close(ch)
		}()
		var wg sync.WaitGroup
		for w := 0; w < 16; w++ {
			wg.Add(1)
			go func() {
				defer wg.Done()
				var cur Case
				g := run.Begin(c.Name, func() any { return cur })
				defer g.End()
				n := 0
				for batch := range ch {
					for _, cs := range batch {
						cur = cs
						g.Touch()
						n++
						runOne(run, which, c, cs, n)
					}
				}
			}()
		}
		wg.Wait()
		mu.Lock()
		perCodec[c.Name] = total
		mu.Unlock()
	}
	run.Set("limits_per_codec", limits)
	run.Set("cases_per_codec", perCodec)
	run.Set("codecs", len(codecs))
}

func hashCase(cs Case) uint64 {
	h := uint64(1469598103934665603)
	mix := func(v uint64) { h ^= v; h *= 1099511628211 }
	for _, b := range []byte(cs.Codec) {
		mix(uint64(b))
	}
	mix(uint64(cs.Limit))
	for _, f := range cs.Frames {
		mix(0xFFFF)
		for _, s := range f {
			mix(uint64(s))
		}
	}
	mix(uint64(cs.Seq))
	mix(uint64(cs.SSRC))
	return h
}

func runOne(run *evid.Run, which string, c *Codec, cs Case, n int) {
	rt, lim, out := RunCase(c, cs)
	if out.Skipped {
		return
	}
	run.Eval(1)
	f := rt
	if which == "C06" {
		f = lim
	}
	np := 0
	oh := hashCase(Case{Codec: cs.Codec})
	for _, k := range out.PacketsPerFrame {
		np += k
		oh = (oh ^ uint64(k)) * 1099511628211
	}
	nu := 0
	for _, fr := range cs.Frames {
		nu += len(fr)
	}
	if np > len(cs.Frames) || nu > len(cs.Frames) {
		run.NontrivialHash(hashCase(cs)) // fragmentation or aggregation actually happened
	}
	run.OutcomeHash(oh)
	if f != nil {
		// re-run before reporting (determinism)
		for k := 0; k < 5; k++ {
			rt2, lim2, _ := RunCase(c, cs)
			f2 := rt2
			if which == "C06" {
				f2 = lim2
			}
			if f2 == nil || f2.Sig != f.Sig {
				run.Flaky(fmt.Sprint(f.Sig, " did not reproduce: ", cs))
				return
			}
		}
		run.Violation(f.Sig, map[string]any{"case": cs, "msg": f.Msg})
	} else if n%4001 == 17 && run.NeedSample() {
		run.Sample(map[string]any{"case": cs, "packets_per_frame": out.PacketsPerFrame})
	}
}
