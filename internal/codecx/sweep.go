package codecx

import (
	"bytes"
	"fmt"
	"sort"
)

// Case is one encode/decode experiment: a series of frames (unit-size vectors) through one
// encoder/decoder pair.
type Case struct {
	Codec  string  `json:"codec"`
	Limit  int     `json:"payload_max_size"`
	Frames [][]int `json:"frames_unit_sizes"`
	Seq    uint16  `json:"initial_seq"`
	SSRC   uint32  `json:"ssrc"`
	Seed   int     `json:"seed"`
}

// Fail is an oracle failure.
type Fail struct {
	Sig string
	Msg string
}

// Outcome summarises one executed case.
type Outcome struct {
	PacketsPerFrame []int
	Skipped         bool // frame generator rejected the size vector (not a valid frame for the format)
}

func failf(sig, f string, a ...any) *Fail { return &Fail{sig, fmt.Sprintf(f, a...)} }

// RunCase executes the case on the real encoder and decoder and evaluates the C03 (round trip) and
// C06 (size limit, numbering, marker, input immutability) oracles.
func RunCase(c *Codec, cs Case) (rt *Fail, lim *Fail, out Outcome) {
	defer func() {
		if r := recover(); r != nil {
			f := failf(c.Name+"/panic", "panic: %v", r)
			if rt == nil {
				rt = f
			}
			if lim == nil {
				lim = f
			}
		}
	}()
	enc, err := c.NewEnc(cs.Limit, cs.Seq, cs.SSRC)
	if err != nil {
		f := failf(c.Name+"/enc-init", "encoder init: %v", err)
		return f, f, out
	}
	if cs.Limit == 0 {
		cs.Limit = DefaultLimit // left unset: the documented default is the limit to hold
	}
	dec, err := c.NewDec()
	if err != nil {
		f := failf(c.Name+"/dec-init", "decoder init: %v", err)
		return f, f, out
	}
	seq := cs.Seq
	defer func() {
		// the signature carries the frame shape class so that a known finding on multi-unit frames
		// cannot hide a failure on single-unit frames (and vice versa)
		multi := "/units=1"
		for _, f := range cs.Frames {
			if len(f) > 1 {
				multi = "/units>1"
			}
		}
		if rt != nil {
			rt.Sig += multi
		}
		if lim != nil && lim != rt {
			lim.Sig += multi
		}
	}()
	for fi, sizes := range cs.Frames {
		fr, ok := c.Make(sizes, cs.Seed+fi)
		if !ok {
			out.Skipped = true
			return nil, nil, out
		}
		orig := fr.Clone()
		pkts, err := enc.Encode(fr)
		if err != nil {
			f := failf(c.Name+"/encode-error", "frame %d %v: Encode returned %v", fi, sizes, err)
			if rt == nil {
				rt = f
			}
			if lim == nil {
				lim = f
			}
			return rt, lim, out
		}
		out.PacketsPerFrame = append(out.PacketsPerFrame, len(pkts))
		if len(pkts) == 0 {
			f := failf(c.Name+"/no-packets", "frame %d %v: Encode returned no packets and no error", fi, sizes)
			if rt == nil {
				rt = f
			}
			if lim == nil {
				lim = f
			}
			return rt, lim, out
		}
		// ---- C06
		if lim == nil {
			for i, p := range pkts {
				last := i == len(pkts)-1
				switch {
				case c.Fragments && len(p.Payload) > cs.Limit:
					lim = failf(c.Name+"/payload-too-big", "frame %d %v packet %d/%d: payload %d > limit %d", fi, sizes, i, len(pkts), len(p.Payload), cs.Limit)
				case p.PayloadType != c.PayloadType:
					lim = failf(c.Name+"/payload-type", "frame %d packet %d: payload type %d want %d", fi, i, p.PayloadType, c.PayloadType)
				case p.SSRC != cs.SSRC:
					lim = failf(c.Name+"/ssrc", "frame %d packet %d: ssrc %d want %d", fi, i, p.SSRC, cs.SSRC)
				case p.SequenceNumber != seq:
					lim = failf(c.Name+"/sequence", "frame %d %v packet %d: sequence number %d want %d", fi, sizes, i, p.SequenceNumber, seq)
				case p.Version != 2:
					lim = failf(c.Name+"/version", "frame %d packet %d: version %d", fi, i, p.Version)
				case last && c.MarkerLast && !p.Marker:
					lim = failf(c.Name+"/marker-missing", "frame %d %v: completing packet %d has no marker", fi, sizes, i)
				case !last && c.Video && p.Marker:
					lim = failf(c.Name+"/marker-early", "frame %d %v: marker on packet %d of %d", fi, sizes, i, len(pkts))
				}
				seq++
				if lim != nil {
					break
				}
			}
			if lim == nil {
				for ui := range orig.Units {
					if !bytes.Equal(orig.Units[ui], fr.Units[ui]) {
						lim = failf(c.Name+"/input-modified", "frame %d %v: Encode modified input unit %d", fi, sizes, ui)
					}
				}
			}
		}
		// ---- C03
		if rt == nil {
			var got [][]byte
			for i, p := range pkts {
				p.Timestamp += 1000 + uint32(fi)*3000
				last := i == len(pkts)-1
				units, more, derr := dec.Decode(p)
				if derr != nil {
					rt = failf(c.Name+"/decode-error", "frame %d %v limit %d packet %d/%d: %v", fi, sizes, cs.Limit, i, len(pkts), derr)
					break
				}
				if !last {
					if !more && !c.Splits {
						rt = failf(c.Name+"/early-frame", "frame %d %v limit %d: decoder returned a frame at packet %d of %d", fi, sizes, cs.Limit, i, len(pkts))
						break
					}
				} else if more {
					rt = failf(c.Name+"/incomplete", "frame %d %v limit %d: decoder still asks for more packets after the last of %d", fi, sizes, cs.Limit, len(pkts))
					break
				}
				got = append(got, units...)
			}
			if rt == nil {
				rt = compare(c, orig, got, fi, sizes, cs.Limit)
			}
			if rt == nil {
				for ui := range orig.Units {
					if !bytes.Equal(orig.Units[ui], fr.Units[ui]) {
						rt = failf(c.Name+"/input-modified-by-decode", "frame %d %v: input unit %d modified after decoding", fi, sizes, ui)
					}
				}
			}
		}
		if rt != nil && lim != nil {
			return rt, lim, out
		}
	}
	return rt, lim, out
}

func compare(c *Codec, orig Frame, got [][]byte, fi int, sizes []int, limit int) *Fail {
	if c.Equal != nil {
		if err := c.Equal(orig, got); err != nil {
			return failf(c.Name+"/mismatch", "frame %d %v limit %d: %v", fi, sizes, limit, err)
		}
		return nil
	}
	if c.Joined {
		a := bytes.Join(orig.Units, nil)
		b := bytes.Join(got, nil)
		if !bytes.Equal(a, b) {
			return failf(c.Name+"/mismatch", "frame %d %v limit %d: decoded %d bytes, original %d bytes (first difference at %d)", fi, sizes, limit, len(b), len(a), firstDiff(a, b))
		}
		if !c.Splits && len(got) != 1 {
			return failf(c.Name+"/grouping", "frame %d %v limit %d: decoder returned %d pieces for one frame", fi, sizes, limit, len(got))
		}
		return nil
	}
	if len(got) != len(orig.Units) {
		var gs []int
		for _, g := range got {
			gs = append(gs, len(g))
		}
		return failf(c.Name+"/grouping", "frame %d %v limit %d: decoded unit sizes %v", fi, sizes, limit, gs)
	}
	for i := range got {
		if !bytes.Equal(got[i], orig.Units[i]) {
			return failf(c.Name+"/mismatch", "frame %d %v limit %d: unit %d differs (len %d vs %d, first difference at %d)", fi, sizes, limit, i, len(got[i]), len(orig.Units[i]), firstDiff(got[i], orig.Units[i]))
		}
	}
	return nil
}

func firstDiff(a, b []byte) int {
	n := min(len(a), len(b))
	for i := 0; i < n; i++ {
		if a[i] != b[i] {
			return i
		}
	}
	return n
}

// sizesUpTo lists the valid unit sizes of c in [c.MinUnit, hi].
func (c *Codec) sizesUpTo(hi int) []int {
	var out []int
	if c.Sizes != nil {
		for _, s := range c.Sizes {
			if s <= hi {
				out = append(out, s)
			}
		}
		if len(out) == 0 {
			out = append(out, c.Sizes[0])
		}
		return out
	}
	step := max(c.UnitStep, 1)
	for s := c.MinUnit; s <= hi; s++ {
		if s%step == 0 && (c.MaxUnit == 0 || s <= c.MaxUnit) {
			out = append(out, s)
		}
	}
	return out
}

// thresholdSizes lists valid unit sizes within +-w of k*(M-h) for k=1..3 and each header size h.
func (c *Codec) thresholdSizes(M, w int) []int {
	set := map[int]bool{}
	hs := append([]int{0, 1, 2, 3, 4}, c.HeaderSizes...)
	for _, h := range hs {
		for k := 1; k <= 3; k++ {
			t := k * (M - h)
			for d := -w; d <= w; d++ {
				set[t+d] = true
			}
		}
	}
	for _, s := range []int{1, 2, 3, 127, 128, 129} {
		set[s] = true
	}
	if M >= 1000 { // where the LEB128 size prefix of AV1 grows to three bytes
		set[16383], set[16384] = true, true
	}
	var out []int
	for s := range set {
		if s >= c.MinUnit && (c.MaxUnit == 0 || s <= c.MaxUnit) && s%max(c.UnitStep, 1) == 0 {
			if c.Sizes != nil {
				continue
			}
			out = append(out, s)
		}
	}
	if c.Sizes != nil {
		// discrete formats: the valid sizes nearest to each threshold
		for t := range set {
			i := sort.SearchInts(c.Sizes, t)
			for _, j := range []int{i - 1, i, i + 1} {
				if j >= 0 && j < len(c.Sizes) {
					out = append(out, c.Sizes[j])
				}
			}
		}
		out = uniq(out)
	}
	sort.Ints(out)
	return out
}

func uniq(a []int) []int {
	sort.Ints(a)
	var o []int
	for i, v := range a {
		if i == 0 || v != a[i-1] {
			o = append(o, v)
		}
	}
	return o
}

// DefaultLimit is what every encoder documents for PayloadMaxSize left at zero.
const DefaultLimit = 1450

// Limits returns the payload size limits explored for c.
func (c *Codec) Limits(thorough bool) (small []int, large []int) {
	hi := min(c.MinLimit+16, 24)
	if thorough {
		hi = 48
	}
	if c.MinLimit > 16 {
		hi = c.MinLimit + 8
		if thorough {
			hi = c.MinLimit + 24
		}
	}
	for m := c.MinLimit; m <= hi; m++ {
		small = append(small, m)
	}
	for _, m := range []int{64, 100, 255, 256, 1000, 1450, 1460} {
		if m > hi && m >= c.MinLimit {
			large = append(large, m)
		}
	}
	return
}

// Enumerate emits every case of the C03/C06 space for codec c (see DESIGN.md §5 C03).
func Enumerate(c *Codec, thorough bool, emit func(Case)) {
	seqs := []uint16{0, 65533, 65534, 65535}
	ssrcs := []uint32{0, 1, 0xFFFFFFFF}
	small, large := c.Limits(thorough)
	mk := func(M int, frames [][]int, seq uint16, ssrc uint32, seed int) {
		emit(Case{Codec: c.Name, Limit: M, Frames: frames, Seq: seq, SSRC: ssrc, Seed: seed})
	}
	for _, M := range small {
		hi := 3*M + 8
		if !thorough {
			hi = 2*M + 8
		}
		ones := c.sizesUpTo(3*M + 8)
		// one unit: every size x every initial sequence number x every SSRC
		for _, s := range ones {
			for _, q := range seqs {
				for _, ss := range ssrcs {
					mk(M, [][]int{{s}}, q, ss, s)
				}
			}
		}
		if c.MaxUnits >= 2 {
			two := c.sizesUpTo(hi)
			if c.Sizes != nil && len(two) > 24 {
				two = c.thresholdSizes(M, 2)
			}
			for _, a := range two {
				for _, b := range two {
					mk(M, [][]int{{a, b}}, 65534, 0xFFFFFFFF, a+b)
				}
			}
		}
		th := c.thresholdSizes(M, 2)
		if thorough {
			th = c.thresholdSizes(M, 4)
		}
		th3 := thin(th, 24)
		if !thorough {
			th3 = thin(th, 18)
		}
		if c.MaxUnits >= 3 && thorough && M <= c.MinLimit+10 && c.Sizes == nil {
			// every triple of unit sizes up to 2M+4 for the smallest limits
			all3 := c.sizesUpTo(2*M + 4)
			for _, a := range all3 {
				for _, b := range all3 {
					for _, d := range all3 {
						mk(M, [][]int{{a, b, d}}, 65535, 0, a+b+d)
					}
				}
			}
		}
		if c.MaxUnits >= 3 {
			for _, a := range th3 {
				for _, b := range th3 {
					for _, d := range th3 {
						mk(M, [][]int{{a, b, d}}, 65535, 1, a+b+d)
					}
				}
			}
		}
		if c.MaxUnits >= 4 {
			th4 := thin(c.thresholdSizes(M, 1), 10)
			if !thorough {
				th4 = thin(th4, 7)
			}
			for _, a := range th4 {
				for _, b := range th4 {
					for _, d := range th4 {
						for _, e := range th4 {
							mk(M, [][]int{{a, b, d, e}}, 65533, 0, a+b+d+e)
						}
					}
				}
			}
		}
		// series of two and three frames through the same encoder/decoder pair
		ser := thin(th, 10)
		for _, a := range ser {
			for _, b := range ser {
				mk(M, [][]int{{a}, {b}}, 65535, 1, a+2*b)
				if c.MaxUnits >= 2 {
					mk(M, [][]int{{a, b}, {b, a}}, 65534, 0, a+3*b)
					mk(M, [][]int{{a, b}, {b}, {a}}, 65533, 0xFFFFFFFF, a+5*b)
				} else {
					for _, d := range thin(ser, 4) {
						mk(M, [][]int{{a}, {b}, {d}}, 65534, 0, a+b+d)
					}
				}
			}
		}
	}
	// the limit left unset: the encoder's documented default (1450) applies; emitted as limit 0
	for _, M0 := range append(append([]int{}, large...), -DefaultLimit) {
		M, lim := M0, M0
		if M0 < 0 {
			M, lim = -M0, 0
		}
		// aggregation ladder: n equal small units, n = 5..24 (many units in one packet: per-unit header
		// arithmetic that only goes wrong from a certain count on)
		if c.MaxUnits >= 2 {
			for _, u := range ladderUnits(c) {
				for n := 5; n <= 24; n++ {
					if c.UnitCountLimit > 0 && n > c.UnitCountLimit {
						break // more units than the decoder accepts per frame is not valid input
					}
					f := make([]int, n)
					for i := range f {
						f[i] = u
					}
					mk(lim, [][]int{f}, 65530, 1, n*u)
				}
			}
		}
		th := c.thresholdSizes(M, 8)
		for _, s := range th {
			for _, q := range seqs {
				mk(lim, [][]int{{s}}, q, 0xFFFFFFFF, s)
			}
		}
		if c.MaxUnits >= 2 {
			t2 := th
			if !thorough {
				t2 = c.thresholdSizes(M, 3)
			}
			for _, a := range t2 {
				for _, b := range t2 {
					mk(lim, [][]int{{a, b}}, 65535, 1, a+b)
				}
			}
			t3 := thin(c.thresholdSizes(M, 2), 24)
			if !thorough {
				t3 = thin(t3, 10)
			}
			if c.MaxUnits >= 3 {
				for _, a := range t3 {
					for _, b := range t3 {
						for _, d := range t3 {
							mk(lim, [][]int{{a, b, d}}, 65534, 0, a+b+d)
						}
					}
				}
			}
		}
		ser := thin(c.thresholdSizes(M, 1), 8)
		for _, a := range ser {
			for _, b := range ser {
				mk(lim, [][]int{{a}, {b}}, 65535, 1, a+b)
			}
		}
	}
}

// ladderUnits are the unit sizes of the aggregation ladders: the smallest valid unit and the next one.
func ladderUnits(c *Codec) []int {
	if c.Sizes != nil {
		return c.Sizes[:1]
	}
	step := max(c.UnitStep, 1)
	return []int{c.MinUnit, c.MinUnit + step}
}

func thin(a []int, n int) []int {
	if len(a) <= n {
		return a
	}
	var o []int
	for i := 0; i < n; i++ {
		o = append(o, a[i*(len(a)-1)/(n-1)])
	}
	return uniq(o)
}
