// Package codecx is the packetizer/depacketizer bench (engine E6): one adapter per RTP payload format
// with a valid-frame generator, uniform encode/decode entry points and the format facts the oracles
// of C03, C06, C07 and C08 need. All adapters drive the real encoders/decoders of pkg/format/rtp*.
package codecx

import (
	"bytes"
	"errors"
	"fmt"

	"github.com/bluenviron/mediacommon/v2/pkg/codecs/ac3"
	"github.com/bluenviron/mediacommon/v2/pkg/codecs/av1"
	"github.com/bluenviron/mediacommon/v2/pkg/codecs/h264"
	"github.com/bluenviron/mediacommon/v2/pkg/codecs/h265"
	"github.com/bluenviron/mediacommon/v2/pkg/codecs/jpeg"
	"github.com/bluenviron/mediacommon/v2/pkg/codecs/mpeg1audio"
	"github.com/pion/rtp"

	"github.com/bluenviron/gortsplib/v5/pkg/format/rtpac3"
	"github.com/bluenviron/gortsplib/v5/pkg/format/rtpav1"
	"github.com/bluenviron/gortsplib/v5/pkg/format/rtpfragmented"
	"github.com/bluenviron/gortsplib/v5/pkg/format/rtph264"
	"github.com/bluenviron/gortsplib/v5/pkg/format/rtph265"
	"github.com/bluenviron/gortsplib/v5/pkg/format/rtpklv"
	"github.com/bluenviron/gortsplib/v5/pkg/format/rtplpcm"
	"github.com/bluenviron/gortsplib/v5/pkg/format/rtpmjpeg"
	"github.com/bluenviron/gortsplib/v5/pkg/format/rtpmpeg1audio"
	"github.com/bluenviron/gortsplib/v5/pkg/format/rtpmpeg1video"
	"github.com/bluenviron/gortsplib/v5/pkg/format/rtpmpeg4audio"
	"github.com/bluenviron/gortsplib/v5/pkg/format/rtpmpegts"
	"github.com/bluenviron/gortsplib/v5/pkg/format/rtpsimpleaudio"
	"github.com/bluenviron/gortsplib/v5/pkg/format/rtpvp8"
	"github.com/bluenviron/gortsplib/v5/pkg/format/rtpvp9"
)

// Frame is one input of an encoder: an access unit / temporal unit / group of audio frames (several
// units) or a single frame (one unit).
type Frame struct {
	Units [][]byte
}

// Clone deep-copies a frame.
func (f Frame) Clone() Frame {
	o := Frame{Units: make([][]byte, len(f.Units))}
	for i, u := range f.Units {
		o.Units[i] = append([]byte{}, u...)
	}
	return o
}

// Size is the total number of bytes.
func (f Frame) Size() int {
	n := 0
	for _, u := range f.Units {
		n += len(u)
	}
	return n
}

// Enc is a live encoder.
type Enc interface {
	Encode(f Frame) ([]*rtp.Packet, error)
}

// Dec is a live decoder. Decode returns the units of a completed frame, or more=true when the
// decoder asks for more packets, or an error.
type Dec interface {
	Decode(p *rtp.Packet) (units [][]byte, more bool, err error)
	// Raw returns the pointer to the library's decoder struct (for the structural memory meter).
	Raw() any
}

// Codec describes one payload format (one parameter variant of it).
type Codec struct {
	Name     string
	Base     string // format family, e.g. "mpeg4audio" for all its parameter variants
	MinLimit int    // smallest workable maximum payload size (derived from the header sizes, see DESIGN)
	MaxUnits int    // 1 for single-frame formats
	MinUnit  int    // smallest valid unit
	MaxUnit  int    // largest valid unit (0 = no format limit below the decoder cap)
	// Sizes returns, when the format only has discrete unit sizes (header-encoded lengths), the list
	// of valid unit sizes; nil otherwise.
	Sizes []int
	// UnitStep: unit sizes must be multiples of this (LPCM sample size, TS packet); 0 or 1 = any.
	UnitStep int

	Fragments   bool // the encoder splits large input: every payload must be <= limit
	Splits      bool // a group is emitted as independently decodable packets (decoder returns sub-groups)
	Joined      bool // decoder returns the units joined as one byte string (MPEG-1 video slices, LPCM)
	Video       bool // marker on the completing packet only
	MarkerLast  bool // marker must be set on the packet that completes the frame
	Stateful    bool // decoder has inter-packet state (C07)
	PayloadType uint8
	Cap         int // documented/structural maximum frame size the decoder may retain (C08); 0 = stateless
	CapDoc      string
	HeaderSizes []int // per-packet header sizes the format uses (for threshold enumeration)
	// UnitCountLimit: the decoder refuses frames with more units than this (0 = no such limit);
	// C07 builds frames with more than half of it so that two damaged frames reach the limit path.
	UnitCountLimit int

	Make   func(sizes []int, seed int) (Frame, bool)
	NewEnc func(limit int, seq uint16, ssrc uint32) (Enc, error)
	NewDec func() (Dec, error)
	// Equal compares what the decoder returned with the original frame; nil means exact unit equality.
	Equal func(orig Frame, got [][]byte) error
}

func fill(b []byte, off, unit, seed int) {
	for j := off; j < len(b); j++ {
		b[j] = byte(1 + (j*31+unit*7+seed*13)%251)
	}
}

var errMoreH264 = rtph264.ErrMorePacketsNeeded

type encFn func(f Frame) ([]*rtp.Packet, error)

func (e encFn) Encode(f Frame) ([]*rtp.Packet, error) { return e(f) }

type decFn struct {
	f   func(p *rtp.Packet) ([][]byte, error)
	raw any
	mor error
}

func (d decFn) Decode(p *rtp.Packet) ([][]byte, bool, error) {
	u, err := d.f(p)
	if err != nil {
		if errors.Is(err, d.mor) {
			return nil, true, nil
		}
		return nil, false, err
	}
	return u, false, nil
}
func (d decFn) Raw() any { return d.raw }

func one(b []byte, err error) ([][]byte, error) {
	if err != nil {
		return nil, err
	}
	return [][]byte{b}, nil
}

func exactSizes(min int) func(sizes []int) bool {
	return func(sizes []int) bool {
		for _, s := range sizes {
			if s < min {
				return false
			}
		}
		return len(sizes) > 0
	}
}

// All returns every codec variant.
func All() []*Codec {
	var cs []*Codec

	// ---------------- H264
	cs = append(cs, &Codec{
		Name: "h264", Base: "h264", MinLimit: 4, MaxUnits: 4, MinUnit: 1, Fragments: true, Video: true, MarkerLast: true, UnitCountLimit: h264.MaxNALUsPerAccessUnit,
		Stateful: true, PayloadType: 96, Cap: 8 << 20, CapDoc: "h264.MaxAccessUnitSize", HeaderSizes: []int{0, 1, 2, 3},
		Make: func(sizes []int, seed int) (Frame, bool) {
			if !exactSizes(1)(sizes) {
				return Frame{}, false
			}
			var f Frame
			for i, s := range sizes {
				u := make([]byte, s)
				fill(u, 1, i, seed)
				u[0] = []byte{0x65, 0x41, 0x67, 0x68, 0x06}[(i+seed)%5] // IDR, non-IDR, SPS, PPS, SEI
				f.Units = append(f.Units, u)
			}
			return f, true
		},
		NewEnc: func(limit int, seq uint16, ssrc uint32) (Enc, error) {
			e := &rtph264.Encoder{PayloadType: 96, SSRC: &ssrc, InitialSequenceNumber: &seq, PayloadMaxSize: limit, PacketizationMode: 1}
			return encFn(func(f Frame) ([]*rtp.Packet, error) { return e.Encode(f.Units) }), e.Init()
		},
		NewDec: func() (Dec, error) {
			d := &rtph264.Decoder{PacketizationMode: 1}
			return decFn{d.Decode, d, rtph264.ErrMorePacketsNeeded}, d.Init()
		},
	})

	// ---------------- H265
	cs = append(cs, &Codec{
		Name: "h265", Base: "h265", MinLimit: 5, MaxUnits: 4, MinUnit: 2, Fragments: true, Video: true, MarkerLast: true, UnitCountLimit: h265.MaxNALUsPerAccessUnit,
		Stateful: true, PayloadType: 96, Cap: 8 << 20, CapDoc: "h265.MaxAccessUnitSize", HeaderSizes: []int{0, 2, 3, 4},
		Make: func(sizes []int, seed int) (Frame, bool) {
			if !exactSizes(2)(sizes) {
				return Frame{}, false
			}
			var f Frame
			for i, s := range sizes {
				u := make([]byte, s)
				fill(u, 2, i, seed)
				u[0] = []byte{19 << 1, 1 << 1, 32 << 1, 33 << 1, 34 << 1}[(i+seed)%5]
				u[1] = 1
				f.Units = append(f.Units, u)
			}
			return f, true
		},
		NewEnc: func(limit int, seq uint16, ssrc uint32) (Enc, error) {
			e := &rtph265.Encoder{PayloadType: 96, SSRC: &ssrc, InitialSequenceNumber: &seq, PayloadMaxSize: limit}
			return encFn(func(f Frame) ([]*rtp.Packet, error) { return e.Encode(f.Units) }), e.Init()
		},
		NewDec: func() (Dec, error) {
			d := &rtph265.Decoder{}
			return decFn{d.Decode, d, rtph265.ErrMorePacketsNeeded}, d.Init()
		},
	})

	// ---------------- AV1
	cs = append(cs, &Codec{
		Name: "av1", Base: "av1", MinLimit: 4, MaxUnits: 4, MinUnit: 1, Fragments: true, Video: true, MarkerLast: true, UnitCountLimit: av1.MaxOBUsPerTemporalUnit,
		Stateful: true, PayloadType: 96, Cap: 3 << 20, CapDoc: "av1.MaxTemporalUnitSize", HeaderSizes: []int{1, 2, 3},
		Make: func(sizes []int, seed int) (Frame, bool) {
			if !exactSizes(1)(sizes) {
				return Frame{}, false
			}
			var f Frame
			for i, s := range sizes {
				u := make([]byte, s)
				fill(u, 1, i, seed)
				u[0] = []byte{0x30, 0x28, 0x18}[(i+seed)%3] // OBU_FRAME, OBU_METADATA, OBU_FRAME_HEADER (no size field)
				f.Units = append(f.Units, u)
			}
			return f, true
		},
		NewEnc: func(limit int, seq uint16, ssrc uint32) (Enc, error) {
			e := &rtpav1.Encoder{PayloadType: 96, SSRC: &ssrc, InitialSequenceNumber: &seq, PayloadMaxSize: limit}
			return encFn(func(f Frame) ([]*rtp.Packet, error) { return e.Encode(f.Units) }), e.Init()
		},
		NewDec: func() (Dec, error) {
			d := &rtpav1.Decoder{}
			return decFn{d.Decode, d, rtpav1.ErrMorePacketsNeeded}, d.Init()
		},
	})

	// ---------------- VP8
	cs = append(cs, &Codec{
		Name: "vp8", Base: "vp8", MinLimit: 2, MaxUnits: 1, MinUnit: 1, Fragments: true, Video: true, MarkerLast: true,
		Stateful: true, PayloadType: 96, Cap: 2 << 20, CapDoc: "vp8.MaxFrameSize", HeaderSizes: []int{1},
		Make: func(sizes []int, seed int) (Frame, bool) {
			if len(sizes) != 1 || sizes[0] < 1 {
				return Frame{}, false
			}
			u := make([]byte, sizes[0])
			fill(u, 0, 0, seed)
			return Frame{Units: [][]byte{u}}, true
		},
		NewEnc: func(limit int, seq uint16, ssrc uint32) (Enc, error) {
			e := &rtpvp8.Encoder{PayloadType: 96, SSRC: &ssrc, InitialSequenceNumber: &seq, PayloadMaxSize: limit}
			return encFn(func(f Frame) ([]*rtp.Packet, error) { return e.Encode(f.Units[0]) }), e.Init()
		},
		NewDec: func() (Dec, error) {
			d := &rtpvp8.Decoder{}
			return decFn{func(p *rtp.Packet) ([][]byte, error) { return one(d.Decode(p)) }, d, rtpvp8.ErrMorePacketsNeeded}, d.Init()
		},
	})

	// ---------------- VP9 (frames start with a frame header pion's payloader accepts)
	vp9key := []byte{0x82, 0x49, 0x83, 0x42, 0x00, 0x77, 0xf0, 0x32, 0x34}
	cs = append(cs, &Codec{
		Name: "vp9", Base: "vp9", MinLimit: 12, MaxUnits: 1, MinUnit: 4, Fragments: true, Video: true, MarkerLast: true,
		Stateful: true, PayloadType: 96, Cap: 2 << 20, CapDoc: "vp9.MaxFrameSize", HeaderSizes: []int{3, 11},
		Make: func(sizes []int, seed int) (Frame, bool) {
			if len(sizes) != 1 || sizes[0] < 4 {
				return Frame{}, false
			}
			u := make([]byte, sizes[0])
			fill(u, 0, 0, seed)
			if seed%2 == 1 && len(u) >= len(vp9key)+3 {
				copy(u, vp9key)
			} else {
				u[0] = 0x86 // frame marker, profile 0, non-key frame, shown
			}
			return Frame{Units: [][]byte{u}}, true
		},
		NewEnc: func(limit int, seq uint16, ssrc uint32) (Enc, error) {
			pid := uint16(0x35af)
			e := &rtpvp9.Encoder{PayloadType: 96, SSRC: &ssrc, InitialSequenceNumber: &seq, PayloadMaxSize: limit, InitialPictureID: &pid}
			return encFn(func(f Frame) ([]*rtp.Packet, error) { return e.Encode(f.Units[0]) }), e.Init()
		},
		NewDec: func() (Dec, error) {
			d := &rtpvp9.Decoder{}
			return decFn{func(p *rtp.Packet) ([][]byte, error) { return one(d.Decode(p)) }, d, rtpvp9.ErrMorePacketsNeeded}, d.Init()
		},
	})

	// ---------------- MPEG-4 audio (generic), parameter variants
	// (SizeLength, IndexLength, IndexDeltaLength): the common ones, and combinations in which the first
	// AU-header is longer / shorter than the following ones
	for _, v := range [][3]int{{13, 3, 3}, {6, 2, 2}, {16, 0, 0}, {13, 0, 0}, {13, 3, 0}, {13, 3, 2}, {6, 2, 1}, {8, 1, 4}} {
		sl, il, idl := v[0], v[1], v[2]
		maxU := 5 * 1024
		if (1<<sl)-1 < maxU {
			maxU = (1 << sl) - 1
		}
		hb := (sl + il + 7) / 8
		cs = append(cs, &Codec{
			Name: fmt.Sprintf("mpeg4audio-%d-%d-%d", sl, il, idl), Base: "mpeg4audio", MinLimit: 3 + hb, MaxUnits: 4, MinUnit: 1, MaxUnit: maxU,
			Fragments: true, Splits: true, MarkerLast: true, Stateful: true, PayloadType: 96, Cap: 5 * 1024, CapDoc: "mpeg4audio.MaxAccessUnitSize",
			HeaderSizes: []int{2 + hb, 2 + (2*sl+il+idl+7)/8, 2 + (3*sl+il+2*idl+7)/8},
			Make: func(sizes []int, seed int) (Frame, bool) {
				if !exactSizes(1)(sizes) {
					return Frame{}, false
				}
				var f Frame
				for i, s := range sizes {
					if s > maxU {
						return Frame{}, false
					}
					u := make([]byte, s)
					fill(u, 0, i, seed)
					u[0] = 0x21 // never an ADTS sync word
					f.Units = append(f.Units, u)
				}
				return f, true
			},
			NewEnc: func(limit int, seq uint16, ssrc uint32) (Enc, error) {
				e := &rtpmpeg4audio.Encoder{PayloadType: 96, SSRC: &ssrc, InitialSequenceNumber: &seq, PayloadMaxSize: limit, SizeLength: sl, IndexLength: il, IndexDeltaLength: idl}
				return encFn(func(f Frame) ([]*rtp.Packet, error) { return e.Encode(f.Units) }), e.Init()
			},
			NewDec: func() (Dec, error) {
				d := &rtpmpeg4audio.Decoder{SizeLength: sl, IndexLength: il, IndexDeltaLength: idl}
				return decFn{d.Decode, d, rtpmpeg4audio.ErrMorePacketsNeeded}, d.Init()
			},
		})
	}

	// ---------------- fragmented (MPEG-4 video, MPEG-4 audio LATM)
	cs = append(cs, &Codec{
		Name: "fragmented", Base: "fragmented", MinLimit: 1, MaxUnits: 1, MinUnit: 1, Fragments: true, Video: true, MarkerLast: true,
		Stateful: true, PayloadType: 96, Cap: 1 << 20, CapDoc: "mpeg4video.MaxFrameSize", HeaderSizes: []int{0},
		Make: func(sizes []int, seed int) (Frame, bool) {
			if len(sizes) != 1 || sizes[0] < 1 {
				return Frame{}, false
			}
			u := make([]byte, sizes[0])
			fill(u, 0, 0, seed)
			return Frame{Units: [][]byte{u}}, true
		},
		NewEnc: func(limit int, seq uint16, ssrc uint32) (Enc, error) {
			e := &rtpfragmented.Encoder{PayloadType: 96, SSRC: &ssrc, InitialSequenceNumber: &seq, PayloadMaxSize: limit}
			return encFn(func(f Frame) ([]*rtp.Packet, error) { return e.Encode(f.Units[0]) }), e.Init()
		},
		NewDec: func() (Dec, error) {
			d := &rtpfragmented.Decoder{}
			return decFn{func(p *rtp.Packet) ([][]byte, error) { return one(d.Decode(p)) }, d, rtpfragmented.ErrMorePacketsNeeded}, d.Init()
		},
	})

	// ---------------- MPEG-1 audio: frame length is announced by the 4-byte header
	m1hdr := map[int][4]byte{}
	var m1sizes []int
	for _, b1 := range []byte{0xFB, 0xFD, 0xF3, 0xF5} { // MPEG-1 layer 3 / layer 2, MPEG-2 layer 3 / layer 2
		for br := 1; br < 15; br++ {
			for sr := 0; sr < 3; sr++ {
				for pad := 0; pad < 2; pad++ {
					h := [4]byte{0xFF, b1, byte(br<<4 | sr<<2 | pad<<1), 0x44}
					var fh mpeg1audio.FrameHeader
					if fh.Unmarshal(append(h[:], 0)) != nil {
						continue
					}
					fl := fh.FrameLen()
					if fl < 5 {
						continue
					}
					if _, ok := m1hdr[fl]; !ok {
						m1hdr[fl] = h
						m1sizes = append(m1sizes, fl)
					}
				}
			}
		}
	}
	sortInts(m1sizes)
	cs = append(cs, &Codec{
		Name: "mpeg1audio", Base: "mpeg1audio", MinLimit: 9, MaxUnits: 4, MinUnit: m1sizes[0], Sizes: m1sizes,
		Fragments: true, Splits: true, MarkerLast: true, Stateful: true, PayloadType: 14,
		Cap: m1sizes[len(m1sizes)-1], CapDoc: "largest frame length a MPEG-1/2 audio header can announce", HeaderSizes: []int{4},
		Make: func(sizes []int, seed int) (Frame, bool) {
			var f Frame
			for i, s := range sizes {
				h, ok := m1hdr[s]
				if !ok {
					return Frame{}, false
				}
				u := make([]byte, s)
				fill(u, 4, i, seed)
				copy(u, h[:])
				f.Units = append(f.Units, u)
			}
			return f, len(sizes) > 0
		},
		NewEnc: func(limit int, seq uint16, ssrc uint32) (Enc, error) {
			e := &rtpmpeg1audio.Encoder{SSRC: &ssrc, InitialSequenceNumber: &seq, PayloadMaxSize: limit}
			return encFn(func(f Frame) ([]*rtp.Packet, error) { return e.Encode(f.Units) }), e.Init()
		},
		NewDec: func() (Dec, error) {
			d := &rtpmpeg1audio.Decoder{}
			return decFn{d.Decode, d, rtpmpeg1audio.ErrMorePacketsNeeded}, d.Init()
		},
	})

	// ---------------- MPEG-1 video: units are slices, each beginning with a start code
	cs = append(cs, &Codec{
		Name: "mpeg1video", Base: "mpeg1video", MinLimit: 8, MaxUnits: 4, MinUnit: 6, Fragments: true, Joined: true, Video: true, MarkerLast: true,
		Stateful: true, PayloadType: 32, Cap: 1 << 20, CapDoc: "rtpmpeg1video.maxFrameSize", HeaderSizes: []int{4},
		Make: func(sizes []int, seed int) (Frame, bool) {
			if !exactSizes(6)(sizes) {
				return Frame{}, false
			}
			var f Frame
			for i, s := range sizes {
				u := make([]byte, s)
				fill(u, 4, i, seed)
				u[0], u[1], u[2] = 0, 0, 1
				if i == 0 {
					u[3] = 0 // picture start code; bytes 4,5 carry temporal reference and frame type
				} else {
					u[3] = byte(i)
				}
				f.Units = append(f.Units, u)
			}
			return f, true
		},
		NewEnc: func(limit int, seq uint16, ssrc uint32) (Enc, error) {
			e := &rtpmpeg1video.Encoder{SSRC: &ssrc, InitialSequenceNumber: &seq, PayloadMaxSize: limit}
			return encFn(func(f Frame) ([]*rtp.Packet, error) { return e.Encode(bytes.Join(f.Units, nil)) }), e.Init()
		},
		NewDec: func() (Dec, error) {
			d := &rtpmpeg1video.Decoder{}
			return decFn{func(p *rtp.Packet) ([][]byte, error) { return one(d.Decode(p)) }, d, rtpmpeg1video.ErrMorePacketsNeeded}, d.Init()
		},
	})

	// ---------------- M-JPEG
	cs = append(cs, &Codec{
		Name: "mjpeg", Base: "mjpeg", MinLimit: 160, MaxUnits: 1, MinUnit: 4, Fragments: true, Video: true, MarkerLast: true,
		Stateful: true, PayloadType: 26, Cap: 1 << 24, CapDoc: "24-bit fragment offset of RFC 2435", HeaderSizes: []int{8, 8 + 4 + 128, 8 + 4 + 64},
		Make: func(sizes []int, seed int) (Frame, bool) {
			if len(sizes) != 1 || sizes[0] < 4 {
				return Frame{}, false
			}
			return Frame{Units: [][]byte{MakeJPEG(sizes[0], seed, false)}}, true
		},
		NewEnc: func(limit int, seq uint16, ssrc uint32) (Enc, error) {
			e := &rtpmjpeg.Encoder{SSRC: &ssrc, InitialSequenceNumber: &seq, PayloadMaxSize: limit}
			return encFn(func(f Frame) ([]*rtp.Packet, error) { return e.Encode(f.Units[0]) }), e.Init()
		},
		NewDec: func() (Dec, error) {
			d := &rtpmjpeg.Decoder{}
			return decFn{func(p *rtp.Packet) ([][]byte, error) { return one(d.Decode(p)) }, d, rtpmjpeg.ErrMorePacketsNeeded}, d.Init()
		},
		Equal: func(orig Frame, got [][]byte) error {
			if len(got) != 1 {
				return fmt.Errorf("got %d images", len(got))
			}
			a, err := ParseJPEG(orig.Units[0])
			if err != nil {
				return fmt.Errorf("harness: original does not parse: %v", err)
			}
			b, err := ParseJPEG(got[0])
			if err != nil {
				return fmt.Errorf("reconstructed image does not parse: %v", err)
			}
			if a.W != b.W || a.H != b.H || a.Type != b.Type {
				return fmt.Errorf("dimensions/type differ: %dx%d type %d vs %dx%d type %d", a.W, a.H, a.Type, b.W, b.H, b.Type)
			}
			if len(a.Q) != len(b.Q) {
				return fmt.Errorf("quantisation table count %d vs %d", len(a.Q), len(b.Q))
			}
			for i := range a.Q {
				if !bytes.Equal(a.Q[i], b.Q[i]) {
					return fmt.Errorf("quantisation table %d differs", i)
				}
			}
			if !bytes.Equal(a.Data, b.Data) {
				return fmt.Errorf("entropy-coded data differs (%d vs %d bytes)", len(a.Data), len(b.Data))
			}
			if a.DRI != b.DRI {
				return fmt.Errorf("restart interval %d vs %d", a.DRI, b.DRI)
			}
			return nil
		},
	})

	// ---------------- M-JPEG with a restart interval (DRI): the encoder emits RTP/JPEG types 64..127
	cs = append(cs, &Codec{
		Name: "mjpeg-dri", Base: "mjpeg", MinLimit: 164, MaxUnits: 1, MinUnit: 4, Fragments: true, Video: true, MarkerLast: true,
		Stateful: true, PayloadType: 26, Cap: 1 << 24, CapDoc: "24-bit fragment offset of RFC 2435", HeaderSizes: []int{8, 8 + 4 + 128, 8 + 4 + 64},
		Make: func(sizes []int, seed int) (Frame, bool) {
			if len(sizes) != 1 || sizes[0] < 4 {
				return Frame{}, false
			}
			return Frame{Units: [][]byte{MakeJPEG(sizes[0], seed, true)}}, true
		},
		NewEnc: func(limit int, seq uint16, ssrc uint32) (Enc, error) {
			e := &rtpmjpeg.Encoder{SSRC: &ssrc, InitialSequenceNumber: &seq, PayloadMaxSize: limit}
			return encFn(func(f Frame) ([]*rtp.Packet, error) { return e.Encode(f.Units[0]) }), e.Init()
		},
		NewDec: func() (Dec, error) {
			d := &rtpmjpeg.Decoder{}
			return decFn{func(p *rtp.Packet) ([][]byte, error) { return one(d.Decode(p)) }, d, rtpmjpeg.ErrMorePacketsNeeded}, d.Init()
		},
		Equal: func(orig Frame, got [][]byte) error {
			if len(got) != 1 {
				return fmt.Errorf("got %d images", len(got))
			}
			a, err := ParseJPEG(orig.Units[0])
			if err != nil {
				return fmt.Errorf("harness: original does not parse: %v", err)
			}
			b, err := ParseJPEG(got[0])
			if err != nil {
				return fmt.Errorf("reconstructed image does not parse: %v", err)
			}
			if a.W != b.W || a.H != b.H || a.Type != b.Type {
				return fmt.Errorf("dimensions/type differ: %dx%d type %d vs %dx%d type %d", a.W, a.H, a.Type, b.W, b.H, b.Type)
			}
			if len(a.Q) != len(b.Q) {
				return fmt.Errorf("quantisation table count %d vs %d", len(a.Q), len(b.Q))
			}
			for i := range a.Q {
				if !bytes.Equal(a.Q[i], b.Q[i]) {
					return fmt.Errorf("quantisation table %d differs", i)
				}
			}
			if !bytes.Equal(a.Data, b.Data) {
				return fmt.Errorf("entropy-coded data differs (%d vs %d bytes)", len(a.Data), len(b.Data))
			}
			if a.DRI != b.DRI {
				return fmt.Errorf("restart interval %d vs %d", a.DRI, b.DRI)
			}
			return nil
		},
	})

	// ---------------- AC-3
	ac3hdr := map[int][5]byte{}
	var ac3sizes []int
	for fs := 0; fs < 3; fs++ {
		for fc := 0; fc < 38; fc++ {
			h := [5]byte{0x0B, 0x77, 0x12, 0x34, byte(fs<<6 | fc)}
			var si ac3.SyncInfo
			if si.Unmarshal(h[:]) != nil {
				continue
			}
			sz := si.FrameSize()
			if _, ok := ac3hdr[sz]; !ok {
				ac3hdr[sz] = h
				ac3sizes = append(ac3sizes, sz)
			}
		}
	}
	sortInts(ac3sizes)
	cs = append(cs, &Codec{
		Name: "ac3", Base: "ac3", MinLimit: 9, MaxUnits: 4, MinUnit: ac3sizes[0], Sizes: ac3sizes,
		Fragments: true, Splits: true, MarkerLast: true, Stateful: true, PayloadType: 96,
		Cap: ac3sizes[len(ac3sizes)-1], CapDoc: "largest frame size an AC-3 syncinfo can announce", HeaderSizes: []int{2},
		Make: func(sizes []int, seed int) (Frame, bool) {
			var f Frame
			for i, s := range sizes {
				h, ok := ac3hdr[s]
				if !ok {
					return Frame{}, false
				}
				u := make([]byte, s)
				fill(u, 5, i, seed)
				copy(u, h[:])
				f.Units = append(f.Units, u)
			}
			return f, len(sizes) > 0
		},
		NewEnc: func(limit int, seq uint16, ssrc uint32) (Enc, error) {
			e := &rtpac3.Encoder{PayloadType: 96, SSRC: &ssrc, InitialSequenceNumber: &seq, PayloadMaxSize: limit}
			return encFn(func(f Frame) ([]*rtp.Packet, error) { return e.Encode(f.Units) }), e.Init()
		},
		NewDec: func() (Dec, error) {
			d := &rtpac3.Decoder{}
			return decFn{d.Decode, d, rtpac3.ErrMorePacketsNeeded}, d.Init()
		},
	})

	// ---------------- LPCM / G711
	for _, v := range [][2]int{{8, 1}, {16, 1}, {16, 2}, {24, 2}, {24, 6}, {8, 6}} {
		depth, ch := v[0], v[1]
		ss := depth * ch / 8
		cs = append(cs, &Codec{
			Name: fmt.Sprintf("lpcm-%d-%d", depth, ch), Base: "lpcm", MinLimit: ss, MaxUnits: 1, MinUnit: ss, UnitStep: ss,
			Fragments: true, Splits: true, Joined: true, PayloadType: 96, HeaderSizes: []int{0},
			Make: func(sizes []int, seed int) (Frame, bool) {
				if len(sizes) != 1 || sizes[0] < ss || sizes[0]%ss != 0 {
					return Frame{}, false
				}
				u := make([]byte, sizes[0])
				fill(u, 0, 0, seed)
				return Frame{Units: [][]byte{u}}, true
			},
			NewEnc: func(limit int, seq uint16, ssrc uint32) (Enc, error) {
				e := &rtplpcm.Encoder{PayloadType: 96, BitDepth: depth, ChannelCount: ch, SSRC: &ssrc, InitialSequenceNumber: &seq, PayloadMaxSize: limit}
				return encFn(func(f Frame) ([]*rtp.Packet, error) { return e.Encode(f.Units[0]) }), e.Init()
			},
			NewDec: func() (Dec, error) {
				d := &rtplpcm.Decoder{BitDepth: depth, ChannelCount: ch}
				return decFn{func(p *rtp.Packet) ([][]byte, error) { return one(d.Decode(p)) }, d, errNever}, d.Init()
			},
		})
	}

	// ---------------- simple audio (Opus, G722, ...): one packet per frame, no fragmentation
	cs = append(cs, &Codec{
		Name: "simpleaudio", Base: "simpleaudio", MinLimit: 1, MaxUnits: 1, MinUnit: 1, PayloadType: 96, HeaderSizes: []int{0},
		Make: func(sizes []int, seed int) (Frame, bool) {
			if len(sizes) != 1 || sizes[0] < 1 {
				return Frame{}, false
			}
			u := make([]byte, sizes[0])
			fill(u, 0, 0, seed)
			return Frame{Units: [][]byte{u}}, true
		},
		NewEnc: func(limit int, seq uint16, ssrc uint32) (Enc, error) {
			e := &rtpsimpleaudio.Encoder{PayloadType: 96, SSRC: &ssrc, InitialSequenceNumber: &seq, PayloadMaxSize: limit}
			return encFn(func(f Frame) ([]*rtp.Packet, error) {
				p, err := e.Encode(f.Units[0])
				if err != nil {
					return nil, err
				}
				return []*rtp.Packet{p}, nil
			}), e.Init()
		},
		NewDec: func() (Dec, error) {
			d := &rtpsimpleaudio.Decoder{}
			return decFn{func(p *rtp.Packet) ([][]byte, error) { return one(d.Decode(p)) }, d, errNever}, d.Init()
		},
	})

	// ---------------- MPEG-TS
	cs = append(cs, &Codec{
		Name: "mpegts", Base: "mpegts", MinLimit: 188, MaxUnits: 16, MinUnit: 188, MaxUnit: 188, UnitStep: 188, Sizes: []int{188},
		Fragments: true, Splits: true, PayloadType: 33, HeaderSizes: []int{0},
		Make: func(sizes []int, seed int) (Frame, bool) {
			var f Frame
			for i, s := range sizes {
				if s != 188 {
					return Frame{}, false
				}
				u := make([]byte, 188)
				fill(u, 1, i, seed)
				u[0] = 0x47
				f.Units = append(f.Units, u)
			}
			return f, len(sizes) > 0
		},
		NewEnc: func(limit int, seq uint16, ssrc uint32) (Enc, error) {
			e := &rtpmpegts.Encoder{SSRC: &ssrc, InitialSequenceNumber: &seq, PayloadMaxSize: limit}
			return encFn(func(f Frame) ([]*rtp.Packet, error) { return e.Encode(f.Units) }), e.Init()
		},
		NewDec: func() (Dec, error) {
			d := &rtpmpegts.Decoder{}
			return decFn{d.Decode, d, errNever}, d.Init()
		},
	})

	// ---------------- KLV: a unit is 1..3 KLV items (16-byte universal label, BER length, value)
	cs = append(cs, &Codec{
		Name: "klv", Base: "klv", MinLimit: 4, MaxUnits: 3, MinUnit: 17, Fragments: true, Joined: true, Video: true, MarkerLast: true,
		Stateful: true, PayloadType: 96, Cap: 2 << 20, CapDoc: "none documented for KLV; 2 MiB used as a notional bound", HeaderSizes: []int{0},
		Make: func(sizes []int, seed int) (Frame, bool) {
			var f Frame
			for i, s := range sizes {
				it := MakeKLVItem(s, i, seed)
				if it == nil {
					return Frame{}, false
				}
				f.Units = append(f.Units, it)
			}
			return f, len(sizes) > 0
		},
		NewEnc: func(limit int, seq uint16, ssrc uint32) (Enc, error) {
			e := &rtpklv.Encoder{PayloadType: 96, SSRC: &ssrc, InitialSequenceNumber: &seq, PayloadMaxSize: limit}
			return encFn(func(f Frame) ([]*rtp.Packet, error) { return e.Encode(bytes.Join(f.Units, nil)) }), e.Init()
		},
		NewDec: func() (Dec, error) {
			d := &rtpklv.Decoder{}
			return decFn{func(p *rtp.Packet) ([][]byte, error) { return one(d.Decode(p)) }, d, rtpklv.ErrMorePacketsNeeded}, d.Init()
		},
	})

	return cs
}

var errNever = errors.New("never returned")

func sortInts(a []int) {
	for i := 1; i < len(a); i++ {
		for j := i; j > 0 && a[j] < a[j-1]; j-- {
			a[j], a[j-1] = a[j-1], a[j]
		}
	}
}

// MakeKLVItem builds one KLV item of exactly total bytes (nil if impossible): 16-byte key, BER length, value.
func MakeKLVItem(total, unit, seed int) []byte {
	if total < 17 {
		return nil
	}
	key := []byte{0x06, 0x0e, 0x2b, 0x34, 0x02, 0x0b, 0x01, 0x01, 0x0e, 0x01, 0x03, 0x01, 0x01, 0x00, 0x00, byte(unit)}
	for _, lb := range []int{1, 2, 3, 4} {
		v := total - 16 - lb
		if v < 0 {
			continue
		}
		var l []byte
		switch lb {
		case 1:
			if v > 127 {
				continue
			}
			l = []byte{byte(v)}
		case 2:
			if v < 128 || v > 255 {
				continue
			}
			l = []byte{0x81, byte(v)}
		case 3:
			if v < 256 || v > 65535 {
				continue
			}
			l = []byte{0x82, byte(v >> 8), byte(v)}
		case 4:
			if v < 65536 {
				continue
			}
			l = []byte{0x83, byte(v >> 16), byte(v >> 8), byte(v)}
		}
		out := append(append([]byte{}, key...), l...)
		val := make([]byte, v)
		fill(val, 0, unit, seed)
		return append(out, val...)
	}
	return nil
}

// JPEGInfo is what the M-JPEG oracle compares.
type JPEGInfo struct {
	W, H int
	Type uint8
	Q    [][]byte
	DRI  int
	Data []byte
}

// MakeJPEG builds a baseline JPEG whose entropy-coded segment has dataLen bytes (ending with EOI).
func MakeJPEG(dataLen, seed int, dri bool) []byte {
	var buf []byte
	buf = jpeg.StartOfImage{}.Marshal(buf)
	q0 := make([]byte, 64)
	q1 := make([]byte, 64)
	for i := range q0 {
		q0[i] = byte(1 + (i*3+seed)%200)
		q1[i] = byte(1 + (i*5+seed+7)%200)
	}
	ntab := 1 + seed%2
	// where the tables sit: T.81 allows any of the four ids and any grouping into DQT segments; RFC 2435 carries
	// the tables without ids, in id order
	layouts := [][2]uint8{{0, 1}, {0, 1}, {1, 2}, {0, 2}, {0, 3}, {2, 3}, {1, 0}, {0, 1}}
	lay := seed / 4 % len(layouts)
	ids := layouts[lay]
	t0 := jpeg.QuantizationTable{ID: ids[0], Data: q0}
	t1 := jpeg.QuantizationTable{ID: ids[1], Data: q1}
	switch {
	case ntab == 1:
		buf = jpeg.DefineQuantizationTable{Tables: []jpeg.QuantizationTable{t0}}.Marshal(buf)
	case lay == 1 || lay == 6:
		// one DQT segment per table (lay 6: the higher id first)
		buf = jpeg.DefineQuantizationTable{Tables: []jpeg.QuantizationTable{t0}}.Marshal(buf)
		buf = jpeg.DefineQuantizationTable{Tables: []jpeg.QuantizationTable{t1}}.Marshal(buf)
	default:
		buf = jpeg.DefineQuantizationTable{Tables: []jpeg.QuantizationTable{t0, t1}}.Marshal(buf)
	}
	buf = jpeg.StartOfFrame1{Type: uint8(seed / 2 % 2), Width: 8 * (1 + seed%40), Height: 8 * (1 + seed%31), QuantizationTableCount: uint8(ntab)}.Marshal(buf)
	if dri {
		buf = append(buf, 0xFF, jpeg.MarkerDefineRestartInterval, 0, 4, 0, 8)
	}
	buf = jpeg.StartOfScan{}.Marshal(buf)
	d := make([]byte, dataLen)
	fill(d, 0, 0, seed)
	if dataLen >= 2 {
		d[dataLen-2], d[dataLen-1] = 0xFF, jpeg.MarkerEndOfImage
	}
	return append(buf, d...)
}

// ParseJPEG extracts the compared parts of a JPEG image.
func ParseJPEG(img []byte) (*JPEGInfo, error) {
	if len(img) < 4 || img[0] != 0xFF || img[1] != 0xD8 {
		return nil, fmt.Errorf("no SOI")
	}
	info := &JPEGInfo{}
	p := img[2:]
	qt := map[uint8][]byte{}
	for len(p) >= 4 {
		if p[0] != 0xFF {
			return nil, fmt.Errorf("marker expected")
		}
		m := p[1]
		l := int(p[2])<<8 | int(p[3])
		if l < 2 || len(p) < 2+l {
			return nil, fmt.Errorf("segment length")
		}
		body := p[4 : 2+l]
		switch m {
		case jpeg.MarkerDefineQuantizationTable:
			var dqt jpeg.DefineQuantizationTable
			if err := dqt.Unmarshal(body); err != nil {
				return nil, err
			}
			for _, t := range dqt.Tables {
				qt[t.ID] = t.Data
			}
		case jpeg.MarkerStartOfFrame1:
			var sof jpeg.StartOfFrame1
			if err := sof.Unmarshal(body); err != nil {
				return nil, err
			}
			info.W, info.H, info.Type = sof.Width, sof.Height, sof.Type
		case jpeg.MarkerDefineRestartInterval:
			if len(body) >= 2 {
				info.DRI = int(body[0])<<8 | int(body[1])
			}
		case jpeg.MarkerStartOfScan:
			info.Data = p[2+l:]
			if n := len(info.Data); n >= 2 && info.Data[n-2] == 0xFF && info.Data[n-1] == jpeg.MarkerEndOfImage {
				info.Data = info.Data[:n-2]
			}
			for id := uint8(0); id < 4; id++ {
				if t, ok := qt[id]; ok {
					info.Q = append(info.Q, t)
				}
			}
			return info, nil
		}
		p = p[2+l:]
	}
	return nil, fmt.Errorf("no SOS")
}

// ByName returns the codec variants whose name or base matches.
func ByName(name string) []*Codec {
	var out []*Codec
	for _, c := range All() {
		if c.Name == name || c.Base == name {
			out = append(out, c)
		}
	}
	return out
}

var _ = errMoreH264
