package codecx

import (
	"fmt"
	"hash/fnv"
	"reflect"

	"github.com/bluenviron/mediacommon/v2/pkg/codecs/mpeg4audio"
	"github.com/pion/rtp"
)

// ---- C08: hostile packet histories ----

// Shape is one letter of a decoder's packet alphabet.
type Shape struct {
	Name    string `json:"name"`
	Payload []byte `json:"-"`
	Len     int    `json:"payload_len"`
	SeqStep int    `json:"seq_step"` // 1 = next, 0 = same, 2 = one packet skipped
	TsStep  int    `json:"ts_step"`  // 0 = same timestamp, 1 = new timestamp
	Marker  bool   `json:"marker"`
	Valid   bool   `json:"valid_payload"` // payload produced by the real encoder (not a malformed variant)
}

// Retained walks the decoder struct and sums the length of every byte slice reachable from it through
// live elements (len, not cap: slots of a backing array beyond len still reference old payloads, but
// they are overwritten before the live data can grow past its earlier peak, so they add at most a
// constant number of packets and are an allocator detail, not decoder state). It also returns a hash
// of the abstract state (all lengths, integers and booleans).
func Retained(dec any) (int, uint64) {
	h := fnv.New64a()
	total := 0
	var walk func(v reflect.Value, depth int)
	walk = func(v reflect.Value, depth int) {
		if depth > 6 {
			return
		}
		switch v.Kind() {
		case reflect.Pointer:
			if !v.IsNil() {
				walk(v.Elem(), depth+1)
			}
		case reflect.Struct:
			for i := 0; i < v.NumField(); i++ {
				walk(v.Field(i), depth+1)
			}
		case reflect.Slice:
			if v.IsNil() {
				fmt.Fprintf(h, "n;")
				return
			}
			fmt.Fprintf(h, "l%d;", v.Len())
			if v.Type().Elem().Kind() == reflect.Uint8 {
				total += v.Len()
				return
			}
			for i := 0; i < v.Len(); i++ {
				walk(v.Index(i), depth+1)
			}
		case reflect.Int, reflect.Int8, reflect.Int16, reflect.Int32, reflect.Int64:
			fmt.Fprintf(h, "i%d;", v.Int())
		case reflect.Uint, reflect.Uint8, reflect.Uint16, reflect.Uint32, reflect.Uint64:
			fmt.Fprintf(h, "u%d;", v.Uint())
		case reflect.Bool:
			fmt.Fprintf(h, "b%v;", v.Bool())
		}
	}
	walk(reflect.ValueOf(dec), 0)
	return total, h.Sum64()
}

func clonePayload(b []byte) []byte { return append([]byte{}, b...) }

// Alphabet builds the packet-shape alphabet of a decoder from its grammar: packets the real encoder
// produces for each frame kind (single, aggregated, first/middle/last fragment) at a small limit and
// at 65000 bytes, plus malformed variants (empty, 1, 2, 3 bytes, truncated, length fields pointing
// past the end), each combined with sequence steps {next, same, skip}, timestamp {same, new} and both
// marker values. big=true restricts to the large payloads (used for the memory lassos).
func Alphabet(c *Codec, rich bool) (all []Shape, big []Shape) {
	type base struct {
		name string
		p    []byte
	}
	var bases []base
	seen := map[string]bool{}
	add := func(name string, p []byte) {
		k := string(p)
		if seen[k] {
			return
		}
		seen[k] = true
		bases = append(bases, base{name, p})
	}
	limit := max(c.MinLimit+8, 24, c.MinUnit+12)
	if c.Sizes != nil {
		limit = c.Sizes[0]*2 + 40
	}
	kinds := FrameKinds(c, limit)
	for _, kn := range []string{"single", "aggr", "frag2", "frag3", "mixed"} {
		sz := kinds[kn]
		if sz == nil {
			continue
		}
		es, err := EncodeStream(c, limit, [][]int{sz})
		if err != nil {
			continue
		}
		for i, p := range es.Pkts[0] {
			pos := "mid"
			if i == 0 {
				pos = "first"
			}
			if i == len(es.Pkts[0])-1 {
				pos = "last"
			}
			if len(es.Pkts[0]) == 1 {
				pos = "only"
			}
			add(fmt.Sprintf("%s.%s", kn, pos), clonePayload(p.Payload))
		}
	}
	// a second single-packet frame with different content (so that "a later frame overwrites an earlier
	// returned one" is visible) and format-specific mode switches that a grammar-aware sender can trigger
	if sz := kinds["single"]; sz != nil {
		if fr, ok := c.Make(sz, 977); ok {
			if enc, err := c.NewEnc(limit, 1, 7); err == nil {
				if pk, err := enc.Encode(fr); err == nil && len(pk) == 1 {
					add("single-alt.only", clonePayload(pk[0].Payload))
				}
			}
		}
	}
	// packets that aggregate many small units (per-unit header arithmetic that depends on the count)
	if c.MaxUnits >= 2 {
		for _, n := range []int{8, 20} {
			if c.UnitCountLimit > 0 && n > c.UnitCountLimit {
				continue
			}
			f := make([]int, n)
			for i := range f {
				f[i] = ladderUnits(c)[0]
			}
			if es, err := EncodeStream(c, 1450, [][]int{f}); err == nil && len(es.Pkts[0]) == 1 {
				add(fmt.Sprintf("ladder%d.only", n), clonePayload(es.Pkts[0][0].Payload))
			}
		}
	}
	switch c.Base {
	case "h264":
		// a NALU that contains an Annex-B start code switches the decoder to Annex-B mode for good
		add("annexb-latch.only", []byte{0x65, 0x11, 0x22, 0, 0, 0, 1, 0x41, 0x33, 0x44})
		add("annexb-prefixed.only", []byte{0, 0, 0, 1, 0x65, 0x55, 0x66, 0x77})
		add("plain-nalu-a.only", []byte{0x41, 0xA1, 0xA2, 0xA3, 0xA4, 0xA5})
		add("plain-nalu-b.only", []byte{0x41, 0xB1, 0xB2, 0xB3, 0xB4})
	case "mpeg4audio":
		// a first access unit that is an ADTS frame switches the decoder to ADTS mode
		adts, err := mpeg4audio.ADTSPackets{{Type: mpeg4audio.ObjectTypeAACLC, SampleRate: 44100, ChannelCount: 2, AU: []byte{0x21, 0x10, 0x04, 0x60}}}.Marshal()
		if err == nil {
			if enc, err := c.NewEnc(limit, 1, 7); err == nil {
				if pk, err := enc.Encode(Frame{Units: [][]byte{adts}}); err == nil && len(pk) == 1 {
					add("adts.only", clonePayload(pk[0].Payload))
				}
				adts2 := append([]byte{}, adts...)
				adts2[len(adts2)-1] ^= 0x55
				if pk, err := enc.Encode(Frame{Units: [][]byte{adts2}}); err == nil && len(pk) == 1 {
					add("adts-alt.only", clonePayload(pk[0].Payload))
				}
			}
		}
	}
	// large fragments: a frame of ~3 x 65000 bytes at limit 65000
	bigStart := len(bases)
	if c.Fragments && c.Sizes == nil && c.Stateful {
		sz := 3*65000 - 300
		if c.MaxUnit > 0 && sz > c.MaxUnit {
			sz = c.MaxUnit
		}
		sz -= sz % max(c.UnitStep, 1)
		if es, err := EncodeStream(c, 65000, [][]int{{sz}}); err == nil {
			for i, p := range es.Pkts[0] {
				pos := "mid"
				if i == 0 {
					pos = "first"
				}
				if i == len(es.Pkts[0])-1 {
					pos = "last"
				}
				add(fmt.Sprintf("big.%s", pos), clonePayload(p.Payload))
			}
		}
		// a large unfragmented unit / aggregated packet where the format allows it
		if es, err := EncodeStream(c, 65535, [][]int{{min(64000, max(c.MaxUnit, 64000))}}); err == nil && len(es.Pkts[0]) == 1 {
			add("big.only", clonePayload(es.Pkts[0][0].Payload))
		}
	}
	if c.Base == "klv" {
		// a first packet that announces a 2 GiB value, and one whose BER length is invalid (so that the
		// unit can only end with a marker): followed by marker-less continuation packets they are the
		// "endless run of middle fragments" of this format
		for name, l := range map[string][]byte{"big.hugelen": {0x84, 0x7F, 0xFF, 0xFF, 0xFF}, "big.badlen": {0x89, 1, 2, 3, 4}} {
			p := make([]byte, 65000)
			fill(p, 0, 3, 9)
			copy(p, []byte{0x06, 0x0e, 0x2b, 0x34, 0x02, 0x0b, 0x01, 0x01, 0x0e, 0x01, 0x03, 0x01, 0x01, 0x00, 0x00, 0x00})
			copy(p[16:], l)
			add(name, p)
		}
	}
	nb := len(bases)
	// malformed: tiny payloads, truncations, inflated length fields
	for _, n := range []int{0, 1, 2, 3, 4, 5, 8} {
		add(fmt.Sprintf("zero%d", n), make([]byte, n))
		ff := make([]byte, n)
		for i := range ff {
			ff[i] = 0xFF
		}
		add(fmt.Sprintf("ff%d", n), ff)
	}
	for i := 0; i < nb; i++ {
		b := bases[i]
		if len(b.p) > 1 && len(b.p) < 4096 {
			add(b.name+".trunc1", clonePayload(b.p[:len(b.p)-1]))
			add(b.name+".head", clonePayload(b.p[:min(len(b.p), 6)]))
			if rich {
				for _, off := range []int{0, 1, 2, 3, 4} {
					if off < len(b.p) {
						m := clonePayload(b.p)
						m[off] ^= 0xFF
						add(fmt.Sprintf("%s.flip%d", b.name, off), m)
					}
				}
			}
		}
	}
	steps := [][2]int{{1, 0}, {1, 1}, {2, 0}, {0, 0}}
	if rich {
		steps = append(steps, [2]int{2, 1}, [2]int{0, 1})
	}
	for i, b := range bases {
		for _, st := range steps {
			for _, m := range []bool{false, true} {
				s := Shape{Name: fmt.Sprintf("%s/seq+%d/ts+%d/m=%v", b.name, st[0], st[1], m), Payload: b.p, Len: len(b.p), SeqStep: st[0], TsStep: st[1], Marker: m, Valid: i < nb}
				all = append(all, s)
				if i >= bigStart && i < nb && st[1] == 0 {
					big = append(big, s)
				}
			}
		}
	}
	return all, big
}

// HostileRun feeds a history (a list of indices into shapes) to a fresh real decoder; after the
// prefix the cycle is repeated until feedBytes bytes have been fed (0 = no cycle). It evaluates the
// C08 oracle at every step.
type HostileResult struct {
	Steps     int
	MaxRet    int
	Frames    int
	Errors    int
	StateKeys []uint64
}

// HostileCase is the replayable description.
type HostileCase struct {
	Codec     string   `json:"codec"`
	Prefix    []string `json:"prefix"`
	Warmup    []string `json:"warmup_cycle"`
	WarmupN   int      `json:"warmup_repeats"`
	Prefix2   []string `json:"second_prefix"`
	Cycle     []string `json:"cycle"`
	FeedBytes int      `json:"feed_bytes"`
}

type returned struct {
	units [][]byte
	hash  uint64
	step  int
}

func hashUnits(u [][]byte) uint64 {
	h := fnv.New64a()
	for _, x := range u {
		fmt.Fprintf(h, "%d:", len(x))
		h.Write(x)
	}
	return h.Sum64()
}

// RunHostile executes prefix, then warmup cycle x warmupN, then prefix2, then cycle until feedBytes were fed.
func RunHostile(c *Codec, prefix, warmup []Shape, warmupN int, prefix2, cycle []Shape, feedBytes int, wantStates bool) (fail *Fail, res HostileResult) {
	defer func() {
		if r := recover(); r != nil {
			fail = failf(c.Name+"/panic", "panic at step %d: %v", res.Steps, r)
		}
	}()
	dec, err := c.NewDec()
	if err != nil {
		return failf(c.Name+"/dec-init", "%v", err), res
	}
	seq := uint16(65530)
	ts := uint32(0xFFFFFF00)
	maxPkt := 0
	var rets []returned
	capBytes := c.Cap
	var memFail *Fail
	// M-JPEG continuation packets must carry the fragment offset the decoder expects; a sender knows
	// it (it is the number of data bytes sent since the last offset-0 packet), so the harness writes it
	// into private copies of the large continuation payloads.
	acc := 0
	private := map[string][]byte{}
	adapt := func(s Shape) Shape {
		if c.Base != "mjpeg" || len(s.Payload) < 4096 {
			return s
		}
		if s.Payload[1] == 0 && s.Payload[2] == 0 && s.Payload[3] == 0 {
			hdr := 8
			if s.Payload[4] >= 64 {
				hdr += 4
			}
			if s.Payload[5] >= 128 && len(s.Payload) >= hdr+4 {
				hdr += 4 + (int(s.Payload[hdr+2])<<8 | int(s.Payload[hdr+3]))
			}
			acc = len(s.Payload) - hdr
			return s
		}
		p, ok := private[s.Name]
		if !ok {
			p = clonePayload(s.Payload)
			private[s.Name] = p
		}
		p[1], p[2], p[3] = byte(acc>>16), byte(acc>>8), byte(acc)
		hdr := 8
		if p[4] >= 64 {
			hdr += 4
		}
		acc += len(p) - hdr
		s.Payload = p
		return s
	}
	step := func(s Shape) *Fail {
		s = adapt(s)
		seq += uint16(s.SeqStep)
		ts += uint32(s.TsStep) * 3000
		if len(s.Payload) > maxPkt {
			maxPkt = len(s.Payload)
		}
		p := &rtp.Packet{Header: rtp.Header{Version: 2, PayloadType: c.PayloadType, SequenceNumber: seq, Timestamp: ts, SSRC: 7, Marker: s.Marker}, Payload: s.Payload}
		units, more, derr := dec.Decode(p)
		res.Steps++
		switch {
		case derr != nil:
			res.Errors++
		case more:
		default:
			res.Frames++
			sz := 0
			for _, u := range units {
				sz += len(u)
			}
			lim := capBytes
			if lim == 0 {
				lim = len(s.Payload)
			}
			tol := 0
			if c.Base == "mjpeg" {
				// no documented maximum: the bound is structural (24-bit fragment offset), so the last
				// packet may start at offset 2^24-1 and add its own payload; plus the reconstructed
				// headers (M-JPEG rebuilds ~600 bytes of JPEG segments)
				tol = maxPkt + 1024
			}
			if sz > lim+tol {
				return failf(c.Name+"/frame-exceeds-maximum", "step %d (%s): returned frame of %d bytes, maximum is %d", res.Steps, s.Name, sz, lim)
			}
			rets = append(rets, returned{units, hashUnits(units), res.Steps})
			if len(rets) > 6 {
				// keep the first two and the latest four under observation
				rets = append(rets[:2:2], rets[len(rets)-4:]...)
			}
		}
		ret, key := Retained(dec.Raw())
		if ret > res.MaxRet {
			res.MaxRet = ret
		}
		if wantStates {
			res.StateKeys = append(res.StateKeys, key)
		}
		if ret > capBytes+maxPkt+4096 && memFail == nil {
			// remember the first excess and keep going: the signature says whether retention stays
			// within twice the maximum (two buffers each bounded on its own) or keeps growing
			memFail = failf(c.Name+"/retained-memory/within-2x-max", "step %d (%s): decoder retains %d bytes; bound is maximum frame size %d (%s) + one packet (%d)", res.Steps, s.Name, ret, capBytes, c.CapDoc, maxPkt)
		}
		if ret > 2*capBytes+2*maxPkt+8192 {
			return failf(c.Name+"/retained-memory/beyond-2x-max", "step %d (%s): decoder retains %d bytes, more than twice the maximum frame size %d (%s) + two packets (%d each), still growing", res.Steps, s.Name, ret, capBytes, c.CapDoc, maxPkt)
		}
		for _, r := range rets {
			if r.step != res.Steps && hashUnits(r.units) != r.hash {
				return failf(c.Name+"/returned-frame-altered", "step %d (%s): the frame returned at step %d was altered by a later Decode call", res.Steps, s.Name, r.step)
			}
		}
		return nil
	}
	for _, s := range prefix {
		if f := step(s); f != nil {
			return f, res
		}
	}
	for i := 0; i < warmupN; i++ {
		for _, s := range warmup {
			if f := step(s); f != nil {
				return f, res
			}
		}
	}
	for _, s := range prefix2 {
		if f := step(s); f != nil {
			return f, res
		}
	}
	fed := 0
	for len(cycle) > 0 && fed < feedBytes {
		for _, s := range cycle {
			if f := step(s); f != nil {
				return f, res
			}
			fed += len(s.Payload) + 1
		}
	}
	return memFail, res
}
