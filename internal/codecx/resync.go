package codecx

import (
	"bytes"
	"fmt"

	"github.com/pion/rtp"
)

// ---- C07: resynchronisation after loss, duplication and reordering ----

// Fault is one transformation of the packet list.
type Fault struct {
	Kind string `json:"kind"` // drop, dup1 (duplicate adjacent), dup2 (duplicate two positions later), swap
	Pos  int    `json:"pos"`
}

// StreamCase is one C07 experiment.
type StreamCase struct {
	Codec  string  `json:"codec"`
	Limit  int     `json:"payload_max_size"`
	Frames [][]int `json:"frames_unit_sizes"` // the last one is the sentinel and is never damaged
	Faults []Fault `json:"faults"`
}

type pid struct{ f, i int }

// EncodedStream is a series of frames encoded once and reused for every fault sequence.
type EncodedStream struct {
	C      *Codec
	Limit  int
	Sizes  [][]int
	Frames []Frame
	Pkts   [][]*rtp.Packet
}

// EncodeStream encodes the frames (distinct content, distinct timestamps, consecutive sequence
// numbers starting at 65530 so that the wrap falls inside the stream).
func EncodeStream(c *Codec, limit int, sizes [][]int) (*EncodedStream, error) {
	enc, err := c.NewEnc(limit, 65530, 0x01020304)
	if err != nil {
		return nil, err
	}
	es := &EncodedStream{C: c, Limit: limit, Sizes: sizes}
	for fi, sz := range sizes {
		fr, ok := c.Make(sz, 100+fi*17)
		if !ok {
			return nil, fmt.Errorf("invalid frame %v", sz)
		}
		pk, err := enc.Encode(fr.Clone())
		if err != nil {
			return nil, err
		}
		for _, p := range pk {
			p.Timestamp += 1000 + uint32(fi)*3000
		}
		es.Frames = append(es.Frames, fr)
		es.Pkts = append(es.Pkts, pk)
	}
	return es, nil
}

// Apply returns the arrival list after the faults (positions refer to the list as it is when the
// fault is applied; only the non-sentinel part is touched).
func (es *EncodedStream) Apply(faults []Fault) ([]pid, bool) {
	var s []pid
	for f := 0; f < len(es.Pkts)-1; f++ {
		for i := range es.Pkts[f] {
			s = append(s, pid{f, i})
		}
	}
	for _, ft := range faults {
		n := len(s)
		switch ft.Kind {
		case "drop":
			if ft.Pos >= n {
				return nil, false
			}
			s = append(s[:ft.Pos:ft.Pos], s[ft.Pos+1:]...)
		case "dup1", "dup2":
			if ft.Pos >= n {
				return nil, false
			}
			at := ft.Pos + 1
			if ft.Kind == "dup2" {
				at = min(ft.Pos+3, n)
			}
			ns := append([]pid{}, s[:at]...)
			ns = append(ns, s[ft.Pos])
			s = append(ns, s[at:]...)
		case "swap":
			if ft.Pos+1 >= n {
				return nil, false
			}
			ns := append([]pid{}, s...)
			ns[ft.Pos], ns[ft.Pos+1] = ns[ft.Pos+1], ns[ft.Pos]
			s = ns
		}
	}
	last := len(es.Pkts) - 1
	for i := range es.Pkts[last] {
		s = append(s, pid{last, i})
	}
	return s, true
}

// Key is a canonical string of an arrival order.
func Key(s []pid) string {
	b := make([]byte, 0, len(s)*2)
	for _, p := range s {
		b = append(b, byte(p.f), byte(p.i))
	}
	return string(b)
}

// RunStream feeds the arrival list to a fresh real decoder and checks the C07 oracle.
// guaranteed reports how many frames the oracle had to see intact (non-vacuity).
func (es *EncodedStream) RunStream(s []pid) (fail *Fail, guaranteed int, outHash uint64) {
	c := es.C
	defer func() {
		if r := recover(); r != nil {
			fail = failf(c.Name+"/panic", "panic: %v", r)
		}
	}()
	dec, err := c.NewDec()
	if err != nil {
		return failf(c.Name+"/dec-init", "%v", err), 0, 0
	}
	// outputs[t] = units returned while processing arrival t
	outputs := make([][][]byte, len(s))
	h := uint64(1469598103934665603)
	for t, id := range s {
		units, more, derr := dec.Decode(es.Pkts[id.f][id.i])
		switch {
		case derr != nil:
			h = (h ^ 3) * 1099511628211
		case more:
			h = (h ^ 2) * 1099511628211
		default:
			// deep copy at the moment of return: whether returned frames stay stable afterwards is C08's
			// question, not C07's
			cp := make([][]byte, len(units))
			for i, u := range units {
				cp[i] = append([]byte{}, u...)
			}
			outputs[t] = cp
			h = (h ^ uint64(len(units)+7)) * 1099511628211
		}
	}
	count := map[pid]int{}
	for _, id := range s {
		count[id]++
	}
	nf := len(es.Pkts) - 1
	runAt := func(k, pos int) bool {
		r := es.Pkts[k]
		if pos < 0 || pos+len(r) > len(s) {
			return false
		}
		for i := range r {
			if s[pos+i] != (pid{k, i}) || count[pid{k, i}] != 1 {
				return false
			}
		}
		return true
	}
	equalsFrame := func(k int, got [][]byte) bool {
		return compare(c, es.Frames[k], got, k, es.Sizes[k], es.Limit) == nil
	}
	for k := 0; k < nf; k++ {
		// locate the (unique) run of frame k
		pos := -1
		for p := 0; p+len(es.Pkts[k]) <= len(s); p++ {
			if runAt(k, p) {
				pos = p
				break
			}
		}
		if pos < 0 {
			continue
		}
		if k == 0 {
			if pos != 0 {
				continue
			}
		} else if !runAt(k-1, pos-len(es.Pkts[k-1])) {
			continue
		}
		guaranteed++
		shape := "/units=1"
		if len(es.Sizes[k]) > 1 {
			shape = "/units>1"
		}
		end := pos + len(es.Pkts[k]) // index of the first packet of what follows (always exists: sentinel)
		var got [][]byte
		n := 0
		if c.Splits {
			for t := pos; t < end; t++ {
				got = append(got, outputs[t]...)
			}
			if equalsFrame(k, got) {
				n = 1
			}
		} else {
			for t := pos; t <= end && t < len(s); t++ {
				if outputs[t] != nil && equalsFrame(k, outputs[t]) {
					n++
				}
			}
		}
		if n == 0 && !c.Splits {
			// returned intact, but only later than the first packet of the following frame?
			for t := end + 1; t < len(s); t++ {
				if outputs[t] != nil && equalsFrame(k, outputs[t]) {
					return failf(c.Name+"/intact-frame-late"+shape, "frame %d %v (packets all in order, predecessor too) was returned intact only at arrival %d, after the first packet of the following frame (arrival %d); arrival order %s",
						k, es.Sizes[k], t, end, fmtArrival(s)), guaranteed, h
				}
			}
		}
		if n != 1 {
			return failf(c.Name+"/intact-frame-not-returned"+shape, "frame %d %v (packets all in order, predecessor too) returned %d times within its window; arrival order %s",
				k, es.Sizes[k], n, fmtArrival(s)), guaranteed, h
		}
		if !c.Splits {
			// exactly once over the whole stream
			tot := 0
			for t := range s {
				if outputs[t] != nil && equalsFrame(k, outputs[t]) {
					tot++
				}
			}
			if tot != 1 {
				return failf(c.Name+"/intact-frame-returned-again"+shape, "frame %d %v returned %d times in total; arrival order %s", k, es.Sizes[k], tot, fmtArrival(s)), guaranteed, h
			}
		}
	}
	return nil, guaranteed, h
}

func fmtArrival(s []pid) string {
	var b bytes.Buffer
	for _, p := range s {
		fmt.Fprintf(&b, "%d.%d ", p.f, p.i)
	}
	return b.String()
}

// FrameKinds finds, by trial encoding at the given limit, unit-size vectors that produce a single
// packet, an aggregated packet, two fragments, three fragments and a mixed frame.
func FrameKinds(c *Codec, limit int) map[string][]int {
	kinds := map[string][]int{}
	count := func(sz []int) int {
		es, err := EncodeStream(c, limit, [][]int{sz})
		if err != nil {
			return -1
		}
		return len(es.Pkts[0])
	}
	cand := c.sizesUpTo(4*limit + 16)
	for _, s := range cand {
		if s < c.MinUnit+5 && c.Sizes == nil && limit >= c.MinUnit+12 {
			continue // frames need a few content bytes so that the frames of a stream are pairwise distinct
		}
		n := count([]int{s})
		switch {
		case n == 1 && kinds["single"] == nil:
			kinds["single"] = []int{s}
		case n == 2 && kinds["frag2"] == nil:
			kinds["frag2"] = []int{s}
		case n == 3 && kinds["frag3"] == nil:
			kinds["frag3"] = []int{s}
		}
	}
	if c.MaxUnits >= 2 && kinds["single"] != nil {
		s := kinds["single"][0]
		if count([]int{s, s + 1}) == 1 {
			kinds["aggr"] = []int{s, s + 1}
		} else if c.Sizes != nil && count([]int{s, s}) == 1 {
			kinds["aggr"] = []int{s, s}
		}
		if f2 := kinds["frag2"]; f2 != nil {
			if n := count([]int{s, f2[0], s}); n >= 3 {
				kinds["mixed"] = []int{s, f2[0], s}
			}
		}
	}
	return kinds
}

// ManyUnitsKind returns a frame of more than half the decoder's unit-count limit, every unit in a packet
// of its own (so the frame spans as many packets as it has units), or nil when the codec has no such
// limit or no such size exists at this payload limit.
func ManyUnitsKind(c *Codec, limit int) []int {
	if c.UnitCountLimit == 0 {
		return nil
	}
	n := c.UnitCountLimit/2 + 1
	for _, s := range c.sizesUpTo(limit) {
		if s < c.MinUnit+5 {
			continue
		}
		one, err1 := EncodeStream(c, limit, [][]int{{s}})
		two, err2 := EncodeStream(c, limit, [][]int{{s, s}})
		if err1 != nil || err2 != nil || len(one.Pkts[0]) != 1 || len(two.Pkts[0]) != 2 {
			continue
		}
		sz := make([]int, n)
		for i := range sz {
			sz[i] = s
		}
		if es, err := EncodeStream(c, limit, [][]int{sz}); err == nil && len(es.Pkts[0]) == n {
			return sz
		}
	}
	return nil
}
